"""Seams the simulator owns in the real library (no source hooks: all are module attributes).

  solver   pacti.terms.polyhedra.polyhedra.linprog, pacti.utils.plots.linprog (when imported)
  clock    pacti.terms.polyhedra.polyhedra.time
  files    pacti.utils.fileio.open / .os   (in-memory file system with torn-write / ENOSPC faults)
  sympy    pacti.terms.polyhedra.polyhedra.sympy.solve is only observed (counted), never faulted
  events   import pacti.utils.plots (flips pyparsing packrat), root logger to DEBUG with a formatting sink
"""
from __future__ import annotations

import errno
import io
import logging
import sys
from typing import Any, Dict, List, Optional, Tuple

import scipy.optimize as _so

import pacti.terms.polyhedra.polyhedra as _poly
import pacti.utils.fileio as _fileio

from pactisim.env import HarnessError

REAL_LINPROG = _so.linprog

LP_SITES = {
    "optimize": "optimize",
    "reduce_polytope": "reduce_polytope",
    "verify_polytope_containment": "verify_polytope_containment",
    "is_polytope_empty": "is_polytope_empty",
    "_tactic_2": "_tactic_2",
    "_get_tlp_context": "_get_tlp_context",
    "_get_feasible_point": "plots._get_feasible_point",
    "_get_bounding_vertices": "plots._get_bounding_vertices",
    "_get_extreme_point": "plots._get_bounding_vertices",
}


class Log:
    def __init__(self) -> None:
        self.events: List[Tuple] = []
        self.seq = 0
        self.counts: Dict[str, int] = {}

    def add(self, kind: str, *payload) -> None:
        self.seq += 1
        self.events.append((self.seq, kind) + payload)

    def count(self, key: str, n: int = 1) -> None:
        self.counts[key] = self.counts.get(key, 0) + n


def _quiet(fn, args, kw):
    """HiGHS reports a give-up on the C-level stdout/stderr; keep the check's output clean."""
    import os  # noqa: WPS433

    sys.stdout.flush()
    sys.stderr.flush()
    saved = [os.dup(1), os.dup(2)]
    null = os.open(os.devnull, os.O_WRONLY)
    try:
        os.dup2(null, 1)
        os.dup2(null, 2)
        return fn(*args, **kw)
    finally:
        os.dup2(saved[0], 1)
        os.dup2(saved[1], 2)
        for fd in saved + [null]:
            os.close(fd)


class SolverSeam:
    """Counts LP calls within a step; at the scheduled index answers with an authentic give-up response."""

    def __init__(self, log: Log):
        self.log = log
        self.calls_in_step = 0
        self.script: Optional[Dict] = None  # {"at": k, "kind": "iter"|"time"|"numerical", "site": optional}
        self.fired = 0
        self.fired_sites: List[str] = []
        self.site_calls: Dict[str, int] = {}

    def begin_step(self, script: Optional[Dict]) -> None:
        self.calls_in_step = 0
        self.script = script
        self.fired = 0
        self.fired_sites = []
        self.site_calls = {}

    def __call__(self, *args, **kwargs):
        site = sys._getframe(1).f_code.co_name  # noqa: WPS437
        site = LP_SITES.get(site, site)
        idx = self.calls_in_step
        self.calls_in_step += 1
        sidx = self.site_calls.get(site, 0)
        self.site_calls[site] = sidx + 1
        sc = self.script
        hit = False
        if sc is not None:
            if sc.get("site"):
                hit = sc["site"] == site and sc["at"] == sidx
            else:
                hit = sc["at"] == idx
        if hit:
            kw = dict(kwargs)
            kind = sc["kind"]
            kw["options"] = {"time_limit": 0.0, "presolve": False} if kind == "time" else {"maxiter": 0, "presolve": False}
            res = _quiet(REAL_LINPROG, args, kw)
            if res.status == 1:
                if kind == "numerical":
                    res["status"] = 4
                    res["message"] = "Numerical difficulties encountered. (simulated relabelling of an authentic give-up response)"
                self.fired += 1
                self.fired_sites.append(site)
                self.log.count("fault_fired:solver_" + kind)
                self.log.count("fault_fired_site:" + site)
                self.log.add("lp", site, idx, "FAULT", kind, int(res.status))
                return res
            # presolve solved it before the budget mattered: not a fault
            self.log.count("fault_not_fired:solver_presolved")
            self.log.add("lp", site, idx, "nofault", int(res.status))
            return res
        res = REAL_LINPROG(*args, **kwargs)
        if res.status not in (0, 2, 3):
            self.log.count("natural_solver_giveup:%s:%d" % (site, int(res.status)))
        self.log.count("lp:%s:%d" % (site, int(res.status)))
        self.log.add("lp", site, idx, int(res.status))
        return res


class FakeClock:
    """Stands in for the `time` module inside polyhedra.py.  Advances by a script; may jump backwards."""

    def __init__(self, log: Log, script: List[float]):
        self.log = log
        self.script = list(script) or [0.001]
        self.pos = 0
        self.now = 1_700_000_000.0
        self.elapsed = 0.0
        self.reads = 0

    def time(self) -> float:  # noqa: WPS110
        d = self.script[self.pos % len(self.script)]
        self.pos += 1
        self.now += d
        self.elapsed += abs(d)
        self.reads += 1
        self.log.count("clock_reads")
        if d < 0:
            self.log.count("clock_backward_jumps")
        return self.now


class MemFS:
    """In-memory files behind pacti.utils.fileio.open / os.path.isfile."""

    def __init__(self, log: Log):
        self.log = log
        self.files: Dict[str, str] = {}
        self.write_fault: Optional[Dict] = None  # {"kind": "enospc"|"torn", "after": n}
        self.path = self  # so that `os.path.isfile` resolves on this object

    # os.path facade
    def isfile(self, name: str) -> bool:
        self.log.add("fs", "isfile", name, name in self.files)
        return name in self.files

    def open(self, name: str, mode: str = "r", *a, **k):  # noqa: A003
        if "w" in mode:
            return _MemWriter(self, name)
        if name not in self.files:
            raise FileNotFoundError(errno.ENOENT, "No such file (simulated)", name)
        self.log.add("fs", "open-r", name, len(self.files[name]))
        return io.StringIO(self.files[name])


class _MemWriter:
    def __init__(self, fs: MemFS, name: str):
        self.fs = fs
        self.name = name
        self.buf: List[str] = []
        fs.files[name] = ""  # open(..., "w") truncates
        fs.log.add("fs", "open-w", name)

    def write(self, s: str) -> int:
        f = self.fs.write_fault
        if f is not None:
            have = sum(len(x) for x in self.buf)
            room = max(0, f["after"] - have)
            if len(s) > room:
                self.buf.append(s[:room])
                self.fs.files[self.name] = "".join(self.buf)
                self.fs.log.count("fault_fired:fs_" + f["kind"])
                self.fs.log.add("fs", "FAULT", f["kind"], self.name, room)
                if f["kind"] == "enospc":
                    raise OSError(errno.ENOSPC, "No space left on device (simulated)")
                raise SimulatedCrash("crash before close (torn write)")
        self.buf.append(s)
        return len(s)

    def __enter__(self):
        return self

    def __exit__(self, et, ev, tb):
        self.fs.files[self.name] = "".join(self.buf)
        self.fs.log.add("fs", "close-w", self.name, len(self.fs.files[self.name]))
        return False


class SimulatedCrash(BaseException):
    """The simulated process died inside a write; caught only by the harness."""


class _NullFormattingHandler(logging.Handler):
    """Formats every record (forcing %s -> __str__ on pacti objects) and throws it away."""

    def __init__(self, log: Log):
        super().__init__(level=logging.DEBUG)
        self.slog = log

    def emit(self, record: logging.LogRecord) -> None:
        record.getMessage()
        self.slog.count("log_records_formatted")


class Seams:
    def __init__(self, clock_script: Optional[List[float]] = None):
        self.log = Log()
        self.solver = SolverSeam(self.log)
        self.clock = FakeClock(self.log, clock_script or [0.001])
        self.fs = MemFS(self.log)
        self.handler: Optional[logging.Handler] = None
        self.plots_imported = False

    def install(self) -> None:
        root = logging.getLogger()
        if not root.handlers:
            # logging.debug() on a handler-less root calls basicConfig() and starts printing to stderr
            root.addHandler(logging.NullHandler())
        _poly.linprog = self.solver
        _poly.time = self.clock
        _fileio.open = self.fs.open  # module global shadows the builtin inside fileio only
        _fileio.os = self.fs
        real_solve = _poly.sympy.solve
        log = self.log

        if not getattr(real_solve, "_pactisim_wrapped", False):
            def solve(*a, **k):  # noqa: WPS430
                log.count("sympy_solve_calls")
                res = real_solve(*a, **k)
                # reach probes: how many unknowns, and whether sympy solved for all of them
                unknowns = len(a) - 1
                try:
                    shape = "all" if len(res) == unknowns else ("none" if len(res) == 0 else "partial")
                except TypeError:
                    shape = "other"
                log.count("sympy_solve:unknowns=%d:solved=%s" % (min(unknowns, 4), shape))
                return res

            solve._pactisim_wrapped = True  # type: ignore
            solve._pactisim_real = real_solve  # type: ignore
            _poly.sympy.solve = solve

    # environment events ------------------------------------------------------------
    def event_import_plots(self) -> None:
        import pacti.utils.plots as plots  # noqa: WPS433

        plots.linprog = self.solver
        self.plots_imported = True
        self.log.count("env:import_plots")
        self.log.add("env", "import_plots")

    def event_logging_debug(self) -> None:
        root = logging.getLogger()
        if self.handler is None:
            self.handler = _NullFormattingHandler(self.log)
            root.addHandler(self.handler)
        root.setLevel(logging.DEBUG)
        # keep noisy third-party loggers out of the sink
        for name in ("matplotlib", "PIL"):
            logging.getLogger(name).setLevel(logging.WARNING)
        self.log.count("env:logging_debug")
        self.log.add("env", "logging_debug")

    def event_logging_off(self) -> None:
        logging.getLogger().setLevel(logging.WARNING)
        self.log.count("env:logging_off")
        self.log.add("env", "logging_off")


def packrat_enabled() -> bool:
    import pyparsing as pp  # noqa: WPS433

    return bool(pp.ParserElement._packratEnabled)  # noqa: WPS437


def authentic_giveup_probe() -> Dict:
    """Used by evidence: show what real scipy returns when it gives up."""
    import numpy as np  # noqa: WPS433

    r = REAL_LINPROG(c=[-1, -1], A_ub=np.array([[1.0, 2.0], [3.0, 1.0]]), b_ub=[4, 5], bounds=(None, None), options={"maxiter": 0})
    return {"status": int(r.status), "fun": r.fun, "x": None if r.x is None else list(r.x), "message": str(r.message)[:80]}
