"""Self-validation of the machinery (not registered checks): determinism and sensitivity.

  ./check selftest determinism [C05|C13|C14]   same seeds twice, other PYTHONHASHSEED / worker count, digests diffed
  ./check selftest mutants [C05|C13|C14|name]  each mutant of /verif/mutants applied to a scratch copy of /repo/src
                                               (outside /repo and /verif, removed afterwards); the targeted check must alarm
"""
from __future__ import annotations

import glob
import json
import os
import shutil
import subprocess
import tempfile
import time
from typing import Dict, List

from pactisim import env, runner
from pactisim.env import HarnessError

CHECK = os.path.join(env.VERIF_DIR, "check")
SUMMARY = os.path.join(env.VERIF_DIR, "selftest_results.json")


def _load_summary() -> Dict:
    if os.path.exists(SUMMARY):
        with open(SUMMARY) as f:
            return json.load(f)
    return {}


def _save_summary(doc: Dict) -> None:
    with open(SUMMARY, "w") as f:
        json.dump(doc, f, indent=1, sort_keys=True)
        f.write("\n")


def apply_mutant(src_root: str, mutant: Dict) -> None:
    for ed in mutant["edits"]:
        path = os.path.join(src_root, ed["file"])
        with open(path) as f:
            text = f.read()
        cnt = text.count(ed["find"])
        if cnt != 1:
            raise HarnessError("mutant %s: find string occurs %d times in %s" % (mutant["name"], cnt, ed["file"]))
        text = text.replace(ed["find"], ed["replace"])
        with open(path, "w") as f:
            f.write(text)


def scratch_tree(mutant: Dict) -> str:
    tmp = tempfile.mkdtemp(prefix="pactisim-mut-", dir=os.environ.get("TMPDIR", "/tmp"))
    dst = os.path.join(tmp, "src")
    shutil.copytree("/repo/src", dst, ignore=shutil.ignore_patterns("__pycache__"))
    apply_mutant(dst, mutant)
    return tmp


def run_check_on(src: str, prop: str, extra_env: Dict[str, str], args: List[str], timeout: int = 3600):
    e = dict(os.environ)
    e["PACTI_SRC"] = src
    e["PACTISIM_SCRATCH_OUTPUT"] = "1"
    e.update(extra_env)
    t0 = time.monotonic()
    cp = subprocess.run([CHECK, prop] + args, capture_output=True, text=True, timeout=timeout, env=e)
    return cp, time.monotonic() - t0


def mutants(rest: List[str], args) -> int:
    sel = rest[1:] if len(rest) > 1 else []
    files = sorted(glob.glob(os.path.join(env.VERIF_DIR, "mutants", "*.json")))
    results = {}
    failed = 0
    for path in files:
        with open(path) as f:
            m = json.load(f)
        m["name"] = os.path.splitext(os.path.basename(path))[0]
        if sel and not (m["name"] in sel or m["property"] in sel):
            continue
        tmp = scratch_tree(m)
        try:
            outdir = os.path.join(tmp, "out")
            os.makedirs(outdir)
            extra = {"PACTISIM_EVIDENCE_DIR": outdir, "PACTISIM_REPLAY_DIR": outdir}
            extra.update(m.get("env", {}))
            cp, wall = run_check_on(os.path.join(tmp, "src"), m["property"], extra, m.get("args", ["--tier", "quick"]))
            caught = cp.returncode == 1 and ("VIOLATION property=%s" % m["property"]) in cp.stdout
            expect = m.get("expect", "caught")
            ok = caught if expect == "caught" else (cp.returncode == 0)
            results[m["name"]] = {"property": m["property"], "expect": expect, "caught": caught, "exit": cp.returncode, "wall_s": round(wall, 1),
                                  "first_violation_line": next((l for l in cp.stdout.splitlines() if l.startswith("VIOLATION")), None),
                                  "note": m.get("note", "")}
            runner.say("%-40s %s exit=%d %.0fs %s" % (m["name"], "OK " if ok else "MISSED", cp.returncode, wall, (cp.stdout.strip().splitlines() or [""])[-1][:150]))
            if not ok:
                failed += 1
                runner.say(cp.stdout[-1500:])
                runner.say(cp.stderr[-1500:])
        finally:
            shutil.rmtree(tmp, ignore_errors=True)
    doc = _load_summary()
    doc.setdefault("mutants", {}).update(results)
    _save_summary(doc)
    runner.say("mutants: %d run, %d not as expected" % (len(results), failed))
    return 0 if failed == 0 else 1


def determinism(rest: List[str], args) -> int:
    props = rest[1:] if len(rest) > 1 else ["C05", "C13", "C14"]
    from pactisim import determinism as det  # noqa: WPS433

    bad = 0
    doc = _load_summary()
    for p in props:
        res = det.check(p)
        doc.setdefault("determinism", {})[p] = res
        runner.say("determinism %s: %s" % (p, json.dumps(res)))
        if res["mismatches"]:
            bad += 1
    _save_summary(doc)
    return 0 if bad == 0 else 1


def main(rest: List[str], args) -> int:
    if not rest:
        runner.say(__doc__)
        return 2
    if rest[0] == "mutants":
        return mutants(rest, args)
    if rest[0] == "determinism":
        return determinism(rest, args)
    runner.say("unknown selftest %r" % rest[0])
    return 2
