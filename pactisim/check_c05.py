"""C05 check: seeded search over (wiring, predicate contents, adversary outcome sequence)."""
from __future__ import annotations

import json
import os
import subprocess
import sys
import time
from typing import Any, Dict, List, Optional, Tuple

from pactisim import c05, env, runner
from pactisim.env import HarnessError

PROP = "C05"
RUNS = {"quick": 160_000, "thorough": 16_000_000}
CHUNK = 2000
TRACE_EVERY = 50
WALL_CAP = {"quick": 900.0, "thorough": 4 * 3600.0}


def _work(job: Tuple[int, int, int]) -> Dict:
    """One chunk = consecutive run indices executed in order in a FRESH process (forked from the pristine worker), so that a
    program's verdict is a function of the chunk prefix only — hidden state in the algebra layer cannot leak across chunks,
    and a violation that needs earlier programs can be replayed."""
    st, res = runner.run_isolated(_work_inner, job, 3600)
    if st != "ok":
        raise HarnessError("C05 chunk %s failed: %s %s" % (job[:2], st, str(res)[-2000:]))
    return res


def _work_inner(job: Tuple[int, int, int]) -> Dict:
    start, end, base = job
    import numpy as np  # noqa: WPS433

    agg: Dict[str, Any] = {
        "runs": 0,
        "ops": 0,
        "outcomes": {},
        "fired": {},
        "primitive_calls": 0,
        "nontrivial": 0,
        "violations": [],
        "n_violating_runs": 0,
        "other_exceptions": [],
        "n_other_exceptions": 0,
        "lines": {},
        "traced_runs": 0,
        "samples": [],
        "sigs": set(),
        "never_returned": {"compose": 0, "quotient": 0, "merge": 0},
    }
    digs = []
    all_logs = []
    for i in range(start, end):
        seed = env.run_seed(base, PROP, i)
        plan = c05.gen_plan(seed)
        traced = i % TRACE_EVERY == 0
        res = c05.execute(plan, trace=traced)
        agg["runs"] += 1
        all_logs.append(res["log_digest"][:16])
        agg["ops"] += len(plan["ops"])
        for o in res["outcomes"]:
            agg["outcomes"][o] = agg["outcomes"].get(o, 0) + 1
        runner.merge_counts(agg["fired"], res["fired"])
        agg["primitive_calls"] += res["primitive_calls"]
        agg["sigs"].update(res["signatures"])
        if res["returned"]:
            agg["nontrivial"] += 1
            digs.append(int(res["log_digest"][:16], 16))
        if traced:
            agg["traced_runs"] += 1
            for ln, cnt in res["lines"].items():
                agg["lines"][ln] = agg["lines"].get(ln, 0) + cnt
        if res["violations"]:
            agg["n_violating_runs"] += 1
            if len(agg["violations"]) < 8:
                agg["violations"].append({"run": i, "plan": plan, "violation": res["violations"][0], "chunk_start": start})
        if res["other_exceptions"]:
            agg["n_other_exceptions"] += len(res["other_exceptions"])
            if len(agg["other_exceptions"]) < 4:
                agg["other_exceptions"].append({"run": i, "plan": plan, "exc": res["other_exceptions"][0]})
        if i < 3:
            agg["samples"].append({"run": i, "plan": plan, "outcomes": res["outcomes"], "fired": res["fired"]})
    agg["digs"] = np.array(digs, dtype=np.uint64)
    agg["chunk_digest"] = env.digest(all_logs)
    agg["sigs"] = sorted(agg["sigs"])
    return agg


def _run_sequence(plans: List[Dict]) -> Optional[Dict]:
    """Execute programs in order in this process; the first violation of the LAST program (or None)."""
    res = None
    for p in plans:
        res = c05.execute(p)
    if res and res["violations"]:
        out = dict(res["violations"][0])
        out["log_digest"] = res["log_digest"]
        out["fired"] = res["fired"]
        return out
    return None


def _sequence_class(plans: List[Dict]) -> Optional[Tuple]:
    st, v = runner.run_isolated(_run_sequence, plans, 600)
    if st != "ok" or v is None:
        return None
    return c05.violation_class(v)


def _reproduces(plan: Dict) -> Optional[Tuple]:
    res = c05.execute(plan)
    if res["violations"]:
        return c05.violation_class(res["violations"][0])
    return None


def replay(path: str) -> int:
    with open(path) as f:
        doc = json.load(f)
    if doc.get("plans"):
        st, v = runner.run_isolated(_run_sequence, doc["plans"], 900)
        if st != "ok":
            runner.say("HARNESS-ERROR: sequence replay did not complete: %s %s" % (st, str(v)[-1500:]))
            return env.EXIT_HARNESS
        if v is not None:
            runner.say("replay: %d programs in one fresh process; the last one: %s at op %d (%s), witness %s" % (len(doc["plans"]), v["oracle"], v["op_index"], v["op"], v["witness"]))
            runner.say("VIOLATION property=%s replay=%s" % (PROP, path))
            return env.EXIT_VIOLATION
        runner.say("replay: no violation")
        return env.EXIT_OK
    plan = doc["plan"]
    res = c05.execute(plan)
    if res["violations"]:
        v = res["violations"][0]
        runner.say("replay: %s at op %d (%s), witness %s, log %s" % (v["oracle"], v["op_index"], v["op"], v["witness"], res["log_digest"][:16]))
        runner.say("VIOLATION property=%s replay=%s" % (PROP, path))
        return env.EXIT_VIOLATION
    runner.say("replay: no violation (outcomes %s)" % res["outcomes"])
    return env.EXIT_OK


def _line_reach(lines: Dict[int, int]) -> Dict:
    """Reach of compose_tactics / quotient_tactics / merge bodies in the traced sample."""
    env.install_pacti_path()
    import inspect  # noqa: WPS433

    import pacti.iocontract.iocontract as m  # noqa: WPS433

    out = {}
    for name in ("compose_tactics", "quotient_tactics", "merge", "refines", "__init__"):
        fn = getattr(m.IoContract, name)
        src, first = inspect.getsourcelines(fn)
        code_lines = set()
        # executable lines according to the code object
        for _s, _e, ln in fn.__code__.co_lines():
            if ln is not None and ln > first:
                code_lines.add(ln)
        hit = sorted(l for l in code_lines if lines.get(l))
        miss = sorted(l for l in code_lines if not lines.get(l))
        out[name] = {
            "executable_lines": len(code_lines),
            "hit": len(hit),
            "never_hit": [{"line": l, "text": src[l - first].strip()[:100]} for l in miss],
        }
    return out


def run(tier: str, runs_override: Optional[int] = None) -> int:
    t0 = time.monotonic()
    base = env.base_seed()
    n = runs_override or int(os.environ.get("PACTISIM_C05_RUNS", "0")) or RUNS[tier]
    workers = runner.n_workers()
    jobs = [(s, e, base) for s, e in runner.chunked(n, CHUNK)]
    parts, truncated = runner.map_chunks(_work, jobs, workers, WALL_CAP[tier])
    import numpy as np  # noqa: WPS433

    tot: Dict[str, Any] = {"runs": 0, "ops": 0, "outcomes": {}, "fired": {}, "primitive_calls": 0, "nontrivial": 0,
                           "n_violating_runs": 0, "n_other_exceptions": 0, "lines": {}, "traced_runs": 0}
    violations: List[Dict] = []
    others: List[Dict] = []
    samples: List[Dict] = []
    sigs = set()
    digs = []
    chunk_digests = []
    for p in parts:
        chunk_digests.append(p["chunk_digest"])
        for k in ("runs", "ops", "primitive_calls", "nontrivial", "n_violating_runs", "n_other_exceptions", "traced_runs"):
            tot[k] += p[k]
        runner.merge_counts(tot["outcomes"], p["outcomes"])
        runner.merge_counts(tot["fired"], p["fired"])
        runner.merge_counts(tot["lines"], p["lines"])
        violations.extend(p["violations"])
        others.extend(p["other_exceptions"])
        samples.extend(p["samples"])
        sigs.update(p["sigs"])
        digs.append(p["digs"])
    distinct = int(len(np.unique(np.concatenate(digs)))) if digs else 0
    wall_search = time.monotonic() - t0

    # ---- violations: one replay file per distinct class, minimised, verified in a fresh interpreter
    reported = []
    seen_cls = set()
    exit_code = env.EXIT_OK
    for v in violations:
        cls = c05.violation_class(v["violation"])
        if cls in seen_cls or len(seen_cls) >= 3:
            continue
        seen_cls.add(cls)
        alone = runner.run_isolated(_reproduces, v["plan"], 300)
        if alone[0] == "ok" and alone[1] != cls:
            # the verdict depends on programs executed EARLIER in the same process: hidden state in the algebra layer.
            # Find a short run of consecutive programs that reproduces it, then drop programs from it.
            plans = None
            width = 1
            while True:
                lo = max(v["chunk_start"], v["run"] - width)
                cand = [c05.gen_plan(env.run_seed(base, PROP, j)) for j in range(lo, v["run"] + 1)]
                if _sequence_class(cand) == cls:
                    plans = cand
                    break
                if lo == v["chunk_start"]:
                    break
                width *= 2
            if plans is None:
                runner.say("HARNESS-ERROR: violation of run %d reproduces neither alone nor with its chunk prefix" % v["run"])
                return env.EXIT_HARNESS
            t_min = time.monotonic()
            i_drop = 0
            while i_drop < len(plans) - 1 and time.monotonic() - t_min < 90:
                cand = plans[:i_drop] + plans[i_drop + 1:]
                if _sequence_class(cand) == cls:
                    plans = cand
                else:
                    i_drop += 1
            doc = {"property": PROP, "class": list(cls), "base_seed": base, "run_index": v["run"], "violation": v["violation"],
                   "plans": plans, "note": "the last program violates the oracle only after the earlier ones ran in the same process: the algebra layer keeps state between calls"}
            path = runner.write_replay(PROP, "%d-%d-seq" % (base, v["run"]), doc)
            cp = subprocess.run([os.path.join(env.VERIF_DIR, "check"), PROP, "--replay", path], capture_output=True, text=True, timeout=900)
            if "VIOLATION property=%s" % PROP not in cp.stdout:
                runner.say("HARNESS-ERROR: program sequence does not reproduce in a fresh interpreter: %s" % path)
                runner.say(cp.stdout[-2000:] + cp.stderr[-2000:])
                return env.EXIT_HARNESS
            reported.append({"class": list(cls), "replay": path, "programs_in_sequence": len(plans)})
            runner.say("VIOLATION property=%s replay=%s" % (PROP, path))
            runner.say("  %s on %s, only after %d earlier program(s) in the same process (hidden state in the algebra layer)" % (cls[1], cls[2], len(plans) - 1))
            exit_code = env.EXIT_VIOLATION
            continue
        small, mstats = runner.minimise(v["plan"], cls, _reproduces, c05.candidates, budget_s=60.0)
        res = c05.execute(small)
        doc = {
            "property": PROP,
            "violation": res["violations"][0],
            "class": list(cls),
            "seed": v["plan"]["seed"],
            "base_seed": base,
            "run_index": v["run"],
            "plan": small,
            "original_plan": v["plan"],
            "minimiser": mstats,
            "log_digest": res["log_digest"],
            "fired": res["fired"],
        }
        path = runner.write_replay(PROP, "%d-%d" % (base, v["run"]), doc)
        # fresh interpreter must reproduce
        cp = subprocess.run([os.path.join(env.VERIF_DIR, "check"), PROP, "--replay", path], capture_output=True, text=True, timeout=300)
        if "VIOLATION property=%s" % PROP not in cp.stdout:
            runner.say("HARNESS-ERROR: minimised plan does not reproduce in a fresh interpreter: %s" % path)
            runner.say(cp.stdout[-2000:] + cp.stderr[-2000:])
            return env.EXIT_HARNESS
        reported.append({"class": list(cls), "replay": path, "ops": len(small["ops"]), "minimiser": mstats})
        runner.say("VIOLATION property=%s replay=%s" % (PROP, path))
        exit_code = env.EXIT_VIOLATION

    reach = _line_reach(tot["lines"])
    ret_by_op = {}
    for kind in ("compose", "quotient", "merge"):
        ok = tot["outcomes"].get(kind + ":ok", 0)
        alln = sum(v for k, v in tot["outcomes"].items() if k.startswith(kind + ":") and not k.endswith(":skipped"))
        ret_by_op[kind] = {"returned": ok, "attempted": alln}
    collapse = [k for k, v in ret_by_op.items() if v["attempted"] > 200 and v["returned"] == 0]
    wall = time.monotonic() - t0
    evidence = {
        "property_id": PROP,
        "tier": tier,
        "seed": base,
        "level": "exploration",
        "wall_s": round(wall, 2),
        "violations": tot["n_violating_runs"],
        "assumptions": [
            "the stub domain's own primitives are correct w.r.t. their documented contracts (each answer is re-checked against the contract before it is returned; a failure of that self-check is exit 2, not a violation)",
            "finite domains ({0,1} or {0,1,2} per variable, <= 6 variables) lose nothing at the algebra level, which treats terms as opaque predicates",
            "simplify is modelled as a sub-selection of the original terms (TermList.simplify docstring), refine/relax per the TermList docstrings plus leftovers, as the shipped polyhedral domain behaves",
            "a clean batch is evidence, not proof: the space is sampled by seed",
        ],
        "coverage": {
            "evaluations": tot["runs"],
            "distinct_nontrivial": distinct,
            "rule": "one evaluation = one simulated program: a pool of 2-5 random stub contracts, 1-6 compose/quotient/merge operations fed back into the pool, and a 64-frame adversary tape deciding the outcome of every primitive call; non-trivial = at least one operation RETURNED a contract (so an oracle was evaluated); distinct = distinct event-log digests (sequence of primitive calls with arguments' shapes and chosen outcomes) among those, counted with numpy.unique",
            "samples": samples[:3],
            "programs": tot["runs"],
            "operations": tot["ops"],
            "primitive_calls_decided_by_adversary": tot["primitive_calls"],
            "outcomes_by_op": dict(sorted(tot["outcomes"].items())),
            "returned_vs_attempted": ret_by_op,
            "coverage_collapse": collapse,
            "adversary_outcomes_fired": dict(sorted(tot["fired"].items())),
            "distinct_states": {"measure": "distinct (op, verdict, adversary outcome kinds fired during the op, result term counts) signatures", "count": len(sigs)},
            "algebra_line_reach": {"traced_programs": tot["traced_runs"], "functions": reach},
            "non_documented_exceptions_seen": {"count": tot["n_other_exceptions"], "examples": [o["exc"] for o in others[:5]]},
            "runs_per_hour": int(tot["runs"] / max(wall_search, 1e-9) * 3600),
            "batch_digest": env.digest(chunk_digests),
            "workers": workers,
            "simulated_time_s": 0,
            "simulated_time_note": "the algebra layer reads no clock; there is no simulated time in this configuration",
            "fault_kinds": "adversary outcome kinds, see adversary_outcomes_fired (counted when they actually fired, not when configured)",
            "components": {
                "real": ["pacti/iocontract/iocontract.py (IoContract, TermList base operators)", "pacti/utils/lists.py", "pacti/utils/errors.py"],
                "stub": ["constraint domain: Term/TermList subclass over a finite universe (pactisim/stub.py)", "adversary tape"],
            },
            "truncated_by_wall_cap": truncated,
            "reported": reported,
            "exhaustive": False,
        },
    }
    runner.write_evidence(PROP, evidence)
    runner.say("C05 %s: %d programs, %d returned-op programs (%d distinct), %d violating runs, %d non-documented exceptions, %.1fs (%d runs/h)" % (
        tier, tot["runs"], tot["nontrivial"], distinct, tot["n_violating_runs"], tot["n_other_exceptions"], wall, evidence["coverage"]["runs_per_hour"]))
    if truncated:
        runner.say("note: batch truncated by wall cap")
    return exit_code
