"""C14-E3: exhaustive single-field corruption of stored contract records through the file seam.

Base records are written by the real writer onto the simulated disk; the JSON tree of every file entry is
walked; at every node: delete it (required dict keys) or replace it by one representative of every other
JSON kind.  Each corrupted record goes through every entry point the property names.  Bounded-exhaustive
torn writes (every prefix of the serialised text), empty and missing files are added.
"""
from __future__ import annotations

import copy
import json
from typing import Any, Dict, Iterator, List, Tuple

from pactisim import seams as sm
from pactisim.env import HarnessError

KIND_REPS = {
    "null": [None],
    "bool": [True],
    "number": [3],
    "string": ["7", "zz"],  # numeric-looking and other
    "list": [[]],
    "object": [{}],
}


REQUIRED_KEYS = ("name", "type", "data", "input_vars", "output_vars", "assumptions", "guarantees", "constant", "coefficients")


def kind_of(x: Any) -> str:
    if x is None:
        return "null"
    if isinstance(x, bool):
        return "bool"
    if isinstance(x, (int, float)):
        return "number"
    if isinstance(x, str):
        return "string"
    if isinstance(x, list):
        return "list"
    if isinstance(x, dict):
        return "object"
    raise HarnessError("not JSON: %r" % (x,))


def base_contracts() -> List[Tuple[str, Any]]:
    from pacti.contracts import PolyhedralIoContract, PolyhedralIoContractCompound  # noqa: WPS433

    out = []
    out.append(("plain", PolyhedralIoContract.from_strings(["x <= 2", "-x <= 0"], ["y - 2x <= 1", "-y <= 0"], ["x"], ["y"])))
    out.append(("no_assumptions", PolyhedralIoContract.from_strings([], ["y <= 3"], [], ["y"])))
    out.append(("opposite_pair", PolyhedralIoContract.from_strings(["|x| <= 1"], ["y - x = 0.5", "z + 1.5y <= 10"], ["x"], ["y", "z"])))
    out.append(("two_inputs", PolyhedralIoContract.from_strings(["u + v <= 4", "u >= 0", "v >= 0"], ["w - u - 2.5v <= 0"], ["u", "v"], ["w"], simplify=False)))
    comp = PolyhedralIoContractCompound.from_strings([["x >= 0", "x <= 1"], ["x >= 2", "x <= 3"]], [["y <= 2x"], ["y >= 0"]], ["x"], ["y"])
    out.append(("compound", comp))
    return out


def paths(node: Any, prefix: Tuple = ()) -> Iterator[Tuple]:
    yield prefix
    if isinstance(node, dict):
        for k in node:
            yield from paths(node[k], prefix + (k,))
    elif isinstance(node, list):
        for i, v in enumerate(node):
            yield from paths(v, prefix + (i,))


def get(node: Any, path: Tuple) -> Any:
    for p in path:
        node = node[p]
    return node


def mutate(root: Any, path: Tuple, action: Tuple) -> Any:
    new = copy.deepcopy(root)
    parent = get(new, path[:-1])
    if action[0] == "delete":
        del parent[path[-1]]
    else:
        parent[path[-1]] = copy.deepcopy(action[1])
    return new


def corruptions(entry: Dict) -> Iterator[Tuple[Tuple, Tuple, Dict]]:
    """All single-node corruptions of one file entry: (path, action, corrupted entry)."""
    for path in paths(entry):
        if not path:
            continue
        node = get(entry, path)
        parent = get(entry, path[:-1])
        if isinstance(parent, dict) and path[-1] in REQUIRED_KEYS:
            yield path, ("delete",), mutate(entry, path, ("delete",))
        k = kind_of(node)
        for other, reps in KIND_REPS.items():
            if other == k:
                continue
            for rep in reps:
                yield path, ("kind", rep, other), mutate(entry, path, ("kind", rep))


def classify(fn, *args) -> Dict:
    import contextlib  # noqa: WPS433
    import io  # noqa: WPS433

    from pacti.utils.errors import ContractFormatError  # noqa: WPS433

    try:
        with contextlib.redirect_stdout(io.StringIO()):  # validate_contract_dict print()s what it rejects
            fn(*args)
    except ContractFormatError:
        return {"verdict": "rejected", "how": "ContractFormatError"}
    except ValueError as e:
        mod = type(e).__module__
        if mod.startswith("pacti.") or mod in ("builtins", "json.decoder"):
            return {"verdict": "rejected", "how": type(e).__name__}
        return {"verdict": "escape", "how": mod + "." + type(e).__name__}
    except HarnessError:
        raise
    except Exception as e:  # noqa: WPS429
        from pactisim.session import exc_info  # noqa: WPS433

        info = exc_info(e)
        return {"verdict": "escape", "how": info["module"] + "." + info["cls"], "where": info["where"]}
    return {"verdict": "accepted", "how": "accepted"}


def node_role(path: Tuple) -> str:
    """Stable description of a node position (list indices abstracted)."""
    return "/".join("*" if isinstance(p, int) else str(p) for p in path)


def enumerate_records() -> Dict:  # noqa: WPS231
    from pacti.contracts import PolyhedralIoContract  # noqa: WPS433
    from pacti.terms.polyhedra import serializer  # noqa: WPS433
    from pacti.utils import fileio  # noqa: WPS433

    s = sm.Seams()
    s.install()
    fs = s.fs
    results: List[Dict] = []
    n_cases = 0
    by_verdict: Dict[str, int] = {}
    samples = []
    for cname, contract in base_contracts():
        reps = [False] if cname == "compound" else [True, False]
        for machine in reps:
            fname = "%s-%s.json" % (cname, "m" if machine else "s")
            fileio.write_contracts_to_file([contract], [cname], fname, machine_representation=machine)
            text = fs.files[fname]
            data = json.loads(text)
            # sanity: the uncorrupted file reads back
            ok = classify(fileio.read_contracts_from_file, fname)
            if ok["verdict"] != "accepted":
                raise HarnessError("base record %s does not read back: %s" % (fname, ok))
            entry = data[0]
            for path, action, bad in corruptions(entry):
                n_cases += 1
                role = node_role(path)
                act = action[0] if action[0] == "delete" else "to_" + action[2] + (":numeric" if action[1] == "7" else "")
                ident = "%s/%s %s %s" % (entry["type"], role, act, cname)
                checks = []
                fs.files["bad.json"] = json.dumps([bad], indent=2)
                checks.append(("read_contracts_from_file", classify(fileio.read_contracts_from_file, "bad.json")))
                if path[0] == "data" and isinstance(bad.get("data"), (dict, list, str, int, float, bool, type(None))) and cname != "compound":
                    d = bad.get("data")
                    checks.append(("validate_contract_dict", classify(serializer.validate_contract_dict, copy.deepcopy(d), cname, machine)))
                    if machine:
                        checks.append(("from_dict", classify(PolyhedralIoContract.from_dict, copy.deepcopy(d))))
                for entry_point, res in checks:
                    by_verdict[res["verdict"]] = by_verdict.get(res["verdict"], 0) + 1
                    rec = {"id": ident, "entry_point": entry_point, "verdict": res["verdict"], "how": res["how"], "where": res.get("where"),
                           "key": "E3 %s %s/%s %s -> %s" % (entry_point, entry["type"], role, act, res["how"])}
                    if res["verdict"] != "rejected":
                        rec["corrupted_entry"] = bad
                        results.append(rec)
                    elif len(samples) < 4 and n_cases % 97 == 0:
                        samples.append({"id": ident, "entry_point": entry_point, "verdict": res["verdict"], "how": res["how"], "corrupted_entry": bad})
    # the file itself and the entry itself replaced by every other JSON kind
    fileio.write_contracts_to_file([base_contracts()[0][1]], ["plain"], "top.json", machine_representation=True)
    good = json.loads(fs.files["top.json"])
    for level, original in (("file", good), ("entry", good[0])):
        k0 = kind_of(original)
        for other, reps in KIND_REPS.items():
            if other == k0:
                continue
            for rep in reps:
                n_cases += 1
                doc = rep if level == "file" else [rep]
                fs.files["bad.json"] = json.dumps(doc, indent=2)
                res = classify(fileio.read_contracts_from_file, "bad.json")
                by_verdict[res["verdict"]] = by_verdict.get(res["verdict"], 0) + 1
                # an empty list is a valid (empty) file; a non-empty wrong kind must be rejected
                if res["verdict"] != "rejected":
                    act = "to_" + other + (":numeric" if rep == "7" else "")
                    results.append({"id": "%s %s" % (level, act), "entry_point": "read_contracts_from_file", "verdict": res["verdict"], "how": res["how"],
                                    "where": res.get("where"), "file_text": fs.files["bad.json"],
                                    "key": "E3 read_contracts_from_file whole-%s %s -> %s" % (level, act, res["how"])})
    # files with two entries, one valid and one corrupted, in either order, with distinct names and with the SAME name:
    # whatever the layout, the reader must reject the file
    first = base_contracts()[0]
    second = base_contracts()[2]
    for machine in (True, False):
        for layout in ("valid-first", "corrupt-first"):
            for naming in ("distinct", "same"):
                names2 = [first[0], second[0]] if naming == "distinct" else ["same", "same"]
                fileio.write_contracts_to_file([first[1], second[1]], names2, "pair.json", machine_representation=machine)
                data = json.loads(fs.files["pair.json"])
                entry = data[1]
                for path, action, bad in corruptions(entry):
                    if naming == "same" and path == ("name",):
                        continue
                    n_cases += 1
                    role = node_role(path)
                    act = action[0] if action[0] == "delete" else "to_" + action[2] + (":numeric" if action[1] == "7" else "")
                    doc2 = [data[0], bad] if layout == "valid-first" else [bad, data[0]]
                    fs.files["bad.json"] = json.dumps(doc2, indent=2)
                    res = classify(fileio.read_contracts_from_file, "bad.json")
                    by_verdict[res["verdict"]] = by_verdict.get(res["verdict"], 0) + 1
                    if res["verdict"] != "rejected":
                        results.append({"id": "two-entry(%s,%s names) %s/%s %s" % (layout, naming, entry["type"], role, act), "entry_point": "read_contracts_from_file",
                                        "verdict": res["verdict"], "how": res["how"], "where": res.get("where"), "corrupted_entry": bad, "file_text": fs.files["bad.json"],
                                        "key": "E3 read_contracts_from_file two-entry(%s,%s) %s/%s %s -> %s" % (layout, naming, entry["type"], role, act, res["how"])})
    return {"cases": n_cases, "by_verdict": by_verdict, "failures": results, "samples": samples}


def enumerate_torn() -> Dict:
    from pacti.utils import fileio  # noqa: WPS433

    s = sm.Seams()
    s.install()
    fs = s.fs
    failures = []
    n = 0
    how: Dict[str, int] = {}
    for cname, contract in base_contracts()[:3]:
        for machine in (True, False):
            fileio.write_contracts_to_file([contract], [cname], "full.json", machine_representation=machine)
            text = fs.files["full.json"]
            for cut in range(len(text)):
                fs.files["torn.json"] = text[:cut]
                res = classify(fileio.read_contracts_from_file, "torn.json")
                n += 1
                how[res["how"]] = how.get(res["how"], 0) + 1
                if res["verdict"] != "rejected":
                    failures.append({"id": "torn %s machine=%s cut=%d/%d" % (cname, machine, cut, len(text)), "verdict": res["verdict"], "how": res["how"],
                                     "key": "E3 torn-file prefix -> %s" % res["how"], "entry_point": "read_contracts_from_file", "file_text": text[:cut]})
    # the write side: a crash / ENOSPC at every position leaves a prefix on disk, and the writer must not swallow the fault
    for after in (0, 1, 10, 100):
        for kind in ("enospc", "torn"):
            fs.write_fault = {"kind": kind, "after": after}
            try:
                fileio.write_contracts_to_file([base_contracts()[0][1]], ["c"], "w.json", machine_representation=True)
                failures.append({"id": "write fault %s after %d swallowed" % (kind, after), "verdict": "accepted", "how": "returned", "key": "E3 write-fault swallowed", "entry_point": "write_contracts_to_file"})
            except OSError:
                pass
            except sm.SimulatedCrash:
                pass
            finally:
                fs.write_fault = None
            n += 1
            res = classify(fileio.read_contracts_from_file, "w.json")
            if res["verdict"] != "rejected":
                failures.append({"id": "read after write fault %s/%d" % (kind, after), "verdict": res["verdict"], "how": res["how"], "key": "E3 torn-file after write fault -> %s" % res["how"], "entry_point": "read_contracts_from_file"})
    res = classify(fileio.read_contracts_from_file, "missing.json")
    n += 1
    if res["verdict"] != "rejected":
        failures.append({"id": "missing file", "verdict": res["verdict"], "how": res["how"], "key": "E3 missing file -> %s" % res["how"], "entry_point": "read_contracts_from_file"})
    return {"cases": n, "how": how, "failures": failures}


def enumerate_oddities() -> Dict:
    """Well-kinded but semantically odd records: they may be accepted or rejected, but only through documented classes."""
    from pacti.contracts import PolyhedralIoContract  # noqa: WPS433
    from pacti.utils import fileio  # noqa: WPS433
    from pacti.utils.errors import ContractFormatError, PolyhedralSyntaxConvexException, PolyhedralSyntaxException  # noqa: WPS433

    s = sm.Seams()
    s.install()
    fs = s.fs
    failures: List[Dict] = []
    n = 0
    outcomes: Dict[str, int] = {}

    def run(label: str, doc: Any, direct: Any = None) -> None:
        nonlocal n
        import contextlib  # noqa: WPS433
        import io  # noqa: WPS433

        calls = [("read_contracts_from_file", lambda: fileio.read_contracts_from_file("odd.json"))]
        if direct is not None:
            calls.append(("from_dict", lambda: PolyhedralIoContract.from_dict(copy.deepcopy(direct))))
        fs.files["odd.json"] = json.dumps(doc, indent=2)
        for ep, fn in calls:
            n += 1
            try:
                with contextlib.redirect_stdout(io.StringIO()):
                    fn()
                how = "accepted"
            except (ContractFormatError, PolyhedralSyntaxException, PolyhedralSyntaxConvexException) as e:
                how = type(e).__name__
            except ValueError as e:
                how = type(e).__name__ if type(e).__module__ in ("builtins", "json.decoder") or type(e).__module__.startswith("pacti.") else "ESCAPE:" + type(e).__module__ + "." + type(e).__name__
            except HarnessError:
                raise
            except Exception as e:  # noqa: WPS429
                how = "ESCAPE:" + type(e).__module__ + "." + type(e).__name__
            outcomes[how] = outcomes.get(how, 0) + 1
            if how.startswith("ESCAPE"):
                failures.append({"id": "odd %s via %s" % (label, ep), "entry_point": ep, "verdict": "escape", "how": how[7:], "file_text": fs.files["odd.json"],
                                 "corrupted_entry": doc[0] if isinstance(doc, list) and doc else None, "key": "E3 odd-record %s via %s -> %s" % (label, ep, how[7:])})

    for cname, contract in base_contracts()[:4]:
        for machine in (True, False):
            fileio.write_contracts_to_file([contract], [cname], "base.json", machine_representation=machine)
            entry = json.loads(fs.files["base.json"])[0]
            data = entry["data"]
            variants = []
            ins, outs = data["input_vars"], data["output_vars"]
            if ins:
                variants.append(("dup_input", {"input_vars": ins + [ins[0]]}))
            if len(ins) >= 2:
                variants.append(("dup_two_inputs", {"input_vars": ins + ins[:2]}))
            if len(outs) >= 2:
                variants.append(("dup_two_outputs", {"output_vars": outs + outs[:2][::-1]}))
            if outs:
                variants.append(("dup_output", {"output_vars": outs + [outs[0]]}))
                variants.append(("in_and_out", {"input_vars": ins + [outs[0]]}))
            variants.append(("no_inputs", {"input_vars": []}))
            variants.append(("no_outputs", {"output_vars": []}))
            variants.append(("no_interface", {"input_vars": [], "output_vars": []}))
            variants.append(("no_guarantees", {"guarantees": []}))
            variants.append(("empty_name_var", {"input_vars": ins + [""]}))
            variants.append(("spacey_var", {"input_vars": ins + ["a b"]}))
            if machine:
                for which in ("assumptions", "guarantees"):
                    for j, cl in enumerate(data[which]):
                        for lab, mod in (("zero_coeff", 0.0), ("huge_coeff", 1e308), ("tiny_coeff", 5e-324), ("negzero_coeff", -0.0)):
                            c2 = copy.deepcopy(data[which])
                            if c2[j]["coefficients"]:
                                k0 = sorted(c2[j]["coefficients"])[0]
                                c2[j]["coefficients"][k0] = mod
                                variants.append(("%s_%s%d" % (lab, which, j), {which: c2}))
                        c3 = copy.deepcopy(data[which])
                        c3[j]["coefficients"]["zz_undeclared"] = 1.0
                        variants.append(("undeclared_%s%d" % (which, j), {which: c3}))
                        c4 = copy.deepcopy(data[which])
                        c4[j]["coefficients"] = {}
                        variants.append(("no_coefficients_%s%d" % (which, j), {which: c4}))
                        c5 = copy.deepcopy(data[which])
                        c5[j]["constant"] = 1e308
                        variants.append(("huge_constant_%s%d" % (which, j), {which: c5}))
            else:
                for which in ("assumptions", "guarantees"):
                    variants.append(("empty_string_%s" % which, {which: data[which] + [""]}))
                    variants.append(("nonconvex_%s" % which, {which: data[which] + ["-|%s| <= 1" % (ins + outs)[0]]}))
                    variants.append(("undeclared_%s" % which, {which: data[which] + ["zz_undeclared <= 1"]}))
                    variants.append(("constant_only_%s" % which, {which: data[which] + ["1 <= 2"]}))
            for lab, patch in variants:
                d2 = copy.deepcopy(data)
                d2.update(copy.deepcopy(patch))
                e2 = dict(entry)
                e2["data"] = d2
                run("%s/%s %s" % (entry["type"], cname, lab), [e2], d2 if machine else None)
            e3 = dict(entry)
            e3["type"] = "NoSuchContractType"
            run("%s/%s unknown_type" % (entry["type"], cname), [e3])
            e4 = dict(entry)
            e4["extra_key"] = 1
            run("%s/%s extra_entry_key" % (entry["type"], cname), [e4])
            if machine:
                # (string form: an unknown key in "data" reaches from_strings(**data) and fails with TypeError; an EXTRA
                # field is neither a missing field nor a field of the wrong kind, so the property does not cover it — see DESIGN §9)
                e5 = copy.deepcopy(entry)
                e5["data"]["extra_key"] = []
                run("%s/%s extra_data_key" % (entry["type"], cname), [e5], e5["data"])
            run("%s/%s duplicated_entry" % (entry["type"], cname), [entry, entry])
    # two entries of different type sharing one name; a machine entry followed by a compound entry
    fileio.write_contracts_to_file([base_contracts()[0][1]], ["same"], "m.json", machine_representation=True)
    fileio.write_contracts_to_file([base_contracts()[2][1]], ["same"], "s.json", machine_representation=False)
    fileio.write_contracts_to_file([base_contracts()[4][1]], ["same"], "c.json", machine_representation=False)
    em, es, ec = (json.loads(fs.files[f])[0] for f in ("m.json", "s.json", "c.json"))
    run("mixed types sharing a name", [em, es, ec])
    run("compound then machine", [ec, em])
    run("empty file list", [])
    return {"cases": n, "outcomes": outcomes, "failures": failures}
