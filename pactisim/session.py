"""Simulated sessions over the real library: seams, shared pool, history, pristine-interpreter replays.

Process model (DESIGN §4.4):
   W  pool worker, pristine: has imported pacti and installed seams, never runs a pacti operation
   Z  zygote forked from W while pristine; serves "run this one call from a pristine state" by forking G
   S  one process per session, forked from W; runs the whole history; asks Z for pristine replays
   G  grandchild of Z: rebuilds canonical arguments, runs one call, answers, exits
"""
from __future__ import annotations

import os
import pickle
import select
import signal
import struct
import time
import traceback
from typing import Any, Callable, Dict, List, Optional, Tuple

from pactisim import canon as cn
from pactisim import env, ops, refmodel, seams as sm
from pactisim.env import HarnessError

G_TIMEOUT = 60.0
PARSE_OPS = ("parse", "from_strings", "optimize", "get_variable_bounds", "read_file", "compound_from_strings", "compound_merge", "compound_le", "compound_misc", "compound_file", "compound_purity", "write_file_mixed")
PROBE_STRINGS = ["2x + 3y <= 4", "1 <= 2(x + y) - z <= 7", "0.5 a + (1/2)b = -1", "3|x| + |x| - y <= 0"]

ALLOWED_EXC = {
    ("builtins", "ValueError"),
    ("pacti.utils.errors", "IncompatibleArgsError"),
    ("pacti.utils.errors", "ContractFormatError"),
    ("pacti.utils.errors", "PolyhedralSyntaxException"),
    ("pacti.utils.errors", "PolyhedralSyntaxConvexException"),
}


# ------------------------------------------------------------------------------ message plumbing
def _send(fd: int, obj: Any) -> None:
    data = pickle.dumps(obj, protocol=4)
    os.write(fd, struct.pack("<Q", len(data)))
    view = memoryview(data)
    while view:
        n = os.write(fd, view[: 1 << 16])
        view = view[n:]


def _recv_exact(fd: int, n: int, deadline: Optional[float]) -> Optional[bytes]:
    chunks = []
    got = 0
    while got < n:
        if deadline is not None:
            left = deadline - time.monotonic()
            if left <= 0:
                return None
            r, _w, _x = select.select([fd], [], [], min(left, 1.0))
            if not r:
                continue
        c = os.read(fd, min(1 << 16, n - got))
        if not c:
            return b"" if not chunks else None
        chunks.append(c)
        got += len(c)
    return b"".join(chunks)


def _recv(fd: int, timeout: Optional[float]) -> Tuple[str, Any]:
    deadline = None if timeout is None else time.monotonic() + timeout
    head = _recv_exact(fd, 8, deadline)
    if head is None:
        return "timeout", None
    if head == b"":
        return "eof", None
    (n,) = struct.unpack("<Q", head)
    body = _recv_exact(fd, n, deadline)
    if body is None or body == b"":
        return "timeout", None
    return "ok", pickle.loads(body)


# ------------------------------------------------------------------------------ pristine side (G)
def exc_info(e: BaseException) -> Dict:
    """Class, defining module and the innermost pacti frame of an exception."""
    tb = traceback.extract_tb(e.__traceback__)
    where = None
    for fr in reversed(tb):
        if os.sep + "pacti" + os.sep in fr.filename and "pactisim" not in fr.filename:
            where = "%s:%s:%s" % (os.path.basename(fr.filename), fr.name, (fr.line or "").strip())
            break
    return {"module": type(e).__module__, "cls": type(e).__name__, "where": where, "msg": str(e)[:160]}


def run_call(name: str, args_canon: Dict[str, Any], s: sm.Seams, script: Optional[Dict] = None) -> Tuple[List, Any, Dict[str, Any]]:
    """Rebuild arguments from canonical form, run one call.  Returns (canonical outcome, raw result, live args)."""
    live = {k: cn.rebuild(v) for k, v in args_canon.items()}
    s.solver.begin_step(script)
    try:
        res = ops.call(name, live)
    except HarnessError:
        raise
    except sm.SimulatedCrash:
        return ["crash"], None, live
    except Exception as e:  # noqa: WPS429
        return ["exc", exc_info(e)], None, live
    return ["ok", cn.canon(ops.strip_timings(name, res))], res, live


def g_execute(req: Dict) -> Any:
    s = sm.Seams(req.get("clock"))
    s.install()
    if req["kind"] == "probe":
        return probe()
    s.fs.files = dict(req.get("files") or {})
    outcome, _res, _live = run_call(req["op"], req["args"], s, None)
    return outcome


def probe() -> List:
    from pacti.terms.polyhedra import serializer  # noqa: WPS433

    out = []
    for st in PROBE_STRINGS:
        try:
            out.append(cn.canon(serializer.polyhedral_termlist_from_string(st)))
        except Exception as e:  # noqa: WPS429
            out.append(["exc", type(e).__name__])
    return out


class _Alarm(Exception):
    pass


def _alarm(signum, frame):
    raise _Alarm()


class Zygote:
    """A pristine process that forks a fresh grandchild for every request."""

    def __init__(self) -> None:
        self.req_r, self.req_w = os.pipe()
        self.resp_r, self.resp_w = os.pipe()
        pid = os.fork()
        if pid == 0:
            try:
                os.close(self.req_w)
                os.close(self.resp_r)
                self._serve()
            finally:
                os._exit(0)  # noqa: WPS437
        self.pid = pid
        os.close(self.req_r)
        os.close(self.resp_w)

    def _serve(self) -> None:
        signal.signal(signal.SIGINT, signal.SIG_IGN)
        while True:
            st, req = _recv(self.req_r, None)
            if st != "ok" or req is None:
                return
            g = os.fork()
            if g == 0:
                code = 0
                try:
                    try:
                        ans = ("ok", g_execute(req))
                    except BaseException:  # noqa: WPS424
                        ans = ("harness", traceback.format_exc())
                    _send(self.resp_w, ans)
                except BaseException:  # noqa: WPS424
                    code = 3
                finally:
                    os._exit(code)  # noqa: WPS437
            done = False
            signal.signal(signal.SIGALRM, _alarm)
            signal.setitimer(signal.ITIMER_REAL, G_TIMEOUT)
            try:
                _p, stt = os.waitpid(g, 0)
                done = True
            except _Alarm:
                done = False
            finally:
                signal.setitimer(signal.ITIMER_REAL, 0)
            if done and stt != 0:
                _send(self.resp_w, ("died", stt))
            if not done:
                try:
                    os.kill(g, signal.SIGKILL)
                except ProcessLookupError:
                    pass
                os.waitpid(g, 0)
                _send(self.resp_w, ("timeout", None))

    def call(self, req: Dict) -> Tuple[str, Any]:
        _send(self.req_w, req)
        st, ans = _recv(self.resp_r, G_TIMEOUT + 30)
        if st != "ok":
            return "timeout", None
        return ans

    def close(self) -> None:
        try:
            _send(self.req_w, None)
        except OSError:
            pass
        for fd in (self.req_w, self.resp_r):
            try:
                os.close(fd)
            except OSError:
                pass
        try:
            os.waitpid(self.pid, 0)
        except ChildProcessError:
            pass


# ------------------------------------------------------------------------------ module state (O2)
def _plain(o: Any, depth: int = 0) -> Any:
    """Printable snapshot of what a callable carries along (bound arguments, defaults, closure cells): containers and
    names are written out, anything else is reduced to its type name."""
    from pacti.iocontract import Var  # noqa: WPS433

    if depth > 4:
        return "..."
    if o is None or isinstance(o, (bool, int, float, str)):
        return o
    if isinstance(o, Var):
        return "Var:" + o.name
    if isinstance(o, (list, tuple)):
        return [_plain(x, depth + 1) for x in o]
    if isinstance(o, (set, frozenset)):
        return sorted(repr(_plain(x, depth + 1)) for x in o)
    if isinstance(o, dict):
        return [[_plain(k, depth + 1), _plain(v, depth + 1)] for k, v in o.items()]
    return "<%s>" % type(o).__name__


def _carried(fn: Any) -> Any:
    import functools  # noqa: WPS433

    if isinstance(fn, functools.partial):
        return {"partial_args": _plain(fn.args), "partial_keywords": _plain(fn.keywords), "of": _carried(fn.func)}
    out = {"defaults": _plain(getattr(fn, "__defaults__", None)), "kwdefaults": _plain(getattr(fn, "__kwdefaults__", None))}
    cells = getattr(fn, "__closure__", None)
    if cells:
        vals = []
        for c in cells:
            try:
                vals.append(_plain(c.cell_contents))
            except ValueError:
                vals.append("<empty cell>")
        out["closure"] = vals
    return out


def modstate() -> Dict:
    import pacti.contracts.polyhedral_iocontract as pc  # noqa: WPS433
    import pacti.terms.polyhedra.polyhedra as pl  # noqa: WPS433
    import pacti.terms.polyhedra.serializer as se  # noqa: WPS433

    return {
        "polyhedra.TACTICS_ORDER": list(pl.TACTICS_ORDER),
        "polyhedra.TACTICS_ORDER.id": id(pl.TACTICS_ORDER),
        "contracts.TACTICS_ORDER": list(pc.TACTICS_ORDER),
        "contracts.TACTICS_ORDER.id": id(pc.TACTICS_ORDER),
        "TACTICS.keys": list(pl.PolyhedralTermList.TACTICS.keys()),
        "TACTICS.fn": [id(v) for v in pl.PolyhedralTermList.TACTICS.values()],
        "TACTICS.carried": [_carried(v) for v in pl.PolyhedralTermList.TACTICS.values()],
        "tolerances": [se.float_closeness_relative_tolerance, se.float_closeness_absolute_tolerance],
        "packrat": sm.packrat_enabled(),
    }


def config_scalars() -> Dict[str, Any]:
    """String and float globals of the pacti modules: configuration-like values (solver method names, tolerances).
    Containers are not looked at (a correct cache is legitimate state), nor ints / bools / None (counters, lazy-init flags)."""
    import sys as _sys  # noqa: WPS433

    out: Dict[str, Any] = {}
    for mname in sorted(_sys.modules):
        if mname == "pacti" or mname.startswith("pacti."):
            mod = _sys.modules[mname]
            for k, v in sorted(vars(mod).items()):
                if k.startswith("__"):
                    continue
                if type(v) is str or type(v) is float:
                    out[mname + "." + k] = v
    return out


def module_globals() -> List[Any]:
    import pacti.contracts.polyhedral_iocontract as pc  # noqa: WPS433
    import pacti.terms.polyhedra.polyhedra as pl  # noqa: WPS433

    return [pl.TACTICS_ORDER, pc.TACTICS_ORDER, pl.PolyhedralTermList.TACTICS]


# ------------------------------------------------------------------------------ the session (S)
class Violation(Exception):
    pass


class Session:
    """Executes a plan.  With `gen` set, steps are generated online (observing only the pool's canonical
    forms) and recorded into the plan; a recorded plan is executed without drawing anything."""

    def __init__(self, plan: Dict, zyg: Optional[Zygote], oracles: List[str], gen: Optional[Callable] = None):
        self.plan = plan
        self.zyg = zyg
        self.oracles = set(oracles)
        self.gen = gen
        self.seams = sm.Seams(plan.get("clock"))
        self.seams.install()
        self.log = self.seams.log
        self.pool: Dict[str, Any] = {}
        self.snap: Dict[str, Any] = {}
        self.violations: List[Dict] = []
        self.parses: Dict[str, Any] = {}
        self.stats: Dict[str, int] = {}
        self.outcomes: List[str] = []
        self.expected_mod: Optional[Dict] = None
        self.expected_probe: Optional[List] = None
        self.harness_notes: List[str] = []
        self.triples: List[str] = []
        self.parse_steps = 0
        self.recent: Dict[str, str] = {}
        self.giveup_seen = False
        self.expected_scalars: Optional[Dict[str, Any]] = None
        self.history: List[Dict] = []  # clean, unfaulted steps: (plan step, pre-call canonical arguments, outcome)

    # ---- helpers
    def count(self, k: str, n: int = 1) -> None:
        self.stats[k] = self.stats.get(k, 0) + n

    def violate(self, step_i: int, op: str, oracle: str, detail: Any, key_extra: str = "") -> None:
        prop = "C14" if oracle.startswith("E") else "C13"
        # E1/E4 findings are identified by the raising site, not by the operation that happened to reach it
        key = "%s %s" % (oracle, key_extra) if oracle in ("E1", "E4") else "%s op=%s %s" % (oracle, op, key_extra)
        self.violations.append({"property": prop, "oracle": oracle, "op": op, "step": step_i, "detail": detail, "key": key.strip()})
        self.log.add("VIOLATION", oracle, op, step_i)

    def pristine(self, req: Dict) -> Tuple[str, Any]:
        if self.zyg is None:
            return "none", None
        st, ans = self.zyg.call(req)
        if st == "harness":
            raise HarnessError("pristine replay failed inside the harness:\n%s" % ans)
        return st, ans

    def check_pool_untouched(self, step_i: int, op: str, when: str, after_error: bool = False) -> None:
        for slot in sorted(self.pool):
            now = cn.canon(self.pool[slot])
            if now != self.snap[slot]:
                self.violate(step_i, op, "O1" if not when.startswith("vandal") else "O3b", {"what": "pool member %s changed %s" % (slot, when), "before": self.snap[slot], "after": now}, "target=pool " + when)
                if after_error and "E2" in self.oracles:
                    # C14: "an error leaves all operands usable" — the failing call changed a contract / list it was given (or another pool member)
                    self.violate(step_i, op, "E2", {"what": "pool member %s changed by a call that raised" % slot, "before": self.snap[slot], "after": now}, "operand changed by a failing call")
                # report once, then put the member back as it was so that the rest of the session (and the step
                # generator, which reads the canonical pool) keeps running on well-formed objects
                self.pool[slot] = cn.rebuild(self.snap[slot])

    def check_modstate(self, step_i: int, op: str, when: str) -> None:
        sc = config_scalars()
        if self.expected_scalars is not None:
            changed = {k: [self.expected_scalars[k], sc[k]] for k in sc if k in self.expected_scalars and type(sc[k]) is type(self.expected_scalars[k]) and sc[k] != self.expected_scalars[k]}
            if changed:
                self.violate(step_i, op, "O2" if not when.startswith("vandal") else "O3b", {"what": "a configuration-like module global (string / float) changed value " + when, "diff": changed},
                             "target=module-scalar:%s %s" % (",".join(sorted(changed)), when))
        self.expected_scalars = sc
        now = modstate()
        if now != self.expected_mod:
            diff = {k: [self.expected_mod.get(k), now.get(k)] for k in now if now.get(k) != self.expected_mod.get(k)}
            self.violate(step_i, op, "O2" if not when.startswith("vandal") else "O3b", {"what": "module state changed " + when, "diff": diff}, "target=module:%s %s" % (",".join(sorted(diff)), when))
            self.expected_mod = now

    def check_probe(self, step_i: int, op: str) -> None:
        if self.expected_probe is None:
            return
        now = probe()
        self.count("grammar_probes")
        if now != self.expected_probe:
            self.violate(step_i, op, "O2", {"what": "grammar probe differs from pristine interpreter", "now": now, "pristine": self.expected_probe}, "target=grammar")
            self.expected_probe = now

    def resolve(self, spec: Dict[str, Dict]) -> Tuple[Dict[str, Any], Dict[str, Any], List[str]]:
        """-> (live args, canonical args as of before the call, names of args that are harness clones)."""
        live, can, clones = {}, {}, []
        for k, a in spec.items():
            if "slot" in a:
                live[k] = self.pool[a["slot"]]
                can[k] = self.snap[a["slot"]]
            elif "slots" in a:
                live[k] = [self.pool[s] for s in a["slots"]]
                can[k] = {"L": [self.snap[s] for s in a["slots"]]}
            elif "clone" in a:
                can[k] = self.snap[a["clone"]]
                live[k] = cn.rebuild(can[k])
                clones.append(k)
            else:
                can[k] = a["lit"]
                live[k] = cn.rebuild(a["lit"])
        return live, can, clones

    def one_call(self, name: str, live: Dict[str, Any], script: Optional[Dict], wfault: Optional[Dict]) -> Tuple[List, Any, int]:
        self.seams.solver.begin_step(script)
        self.seams.fs.write_fault = wfault
        try:
            res = ops.call(name, live)
            out = ["ok", cn.canon(ops.strip_timings(name, res))]
        except HarnessError:
            raise
        except sm.SimulatedCrash:
            res, out = None, ["crash"]
        except Exception as e:  # noqa: WPS429
            res, out = None, ["exc", exc_info(e)]
        finally:
            self.seams.fs.write_fault = None
        fired = self.seams.solver.fired
        for site in self.seams.solver.site_calls:
            self.log.count("reach:%s:%s" % (name, site))
        for site in self.seams.solver.fired_sites:
            self.log.count("fired:%s:%s" % (name, site))
        self.seams.solver.begin_step(None)
        return out, res, fired

    # ---- main loop
    def run(self) -> Dict:
        plan = self.plan
        for slot, c in plan["pool"].items():
            self.pool[slot] = cn.rebuild(c)
            self.snap[slot] = cn.canon(self.pool[slot])
            if self.snap[slot] != c:
                raise HarnessError("canonical round trip failed for %s" % slot)
        self.expected_mod = modstate()
        if "O2" in self.oracles and self.zyg is not None:
            st, ans = self.pristine({"kind": "probe"})
            if st == "ok":
                self.expected_probe = ans
                here = probe()
                if here != ans:
                    raise HarnessError("grammar probe differs before any step")
        steps = plan.get("steps")
        online = steps is None
        if online:
            plan["steps"] = []
        n = plan["n_steps"] if online else len(steps)
        prev = ["^", "^"]
        for i in range(n):
            if online:
                step = self.gen(self, i)
                plan["steps"].append(step)
            else:
                step = steps[i]
            self.step(i, step)
            oc = self.outcomes[-1]
            self.triples.append(prev[0] + ">" + prev[1] + ">" + step["op"])
            prev = [prev[1], step["op"]]
            _ = oc
        self.finish(n)
        return self.result()

    def step(self, i: int, step: Dict) -> None:  # noqa: WPS231, WPS212
        name = step["op"]
        O = self.oracles
        self.log.add("step", i, name)
        for ev in step.get("env", []):
            if ev == "import_plots":
                self.seams.event_import_plots()
                self.expected_mod["packrat"] = sm.packrat_enabled()  # the one legitimate change
            elif ev == "logging_debug":
                self.seams.event_logging_debug()
            elif ev == "logging_off":
                self.seams.event_logging_off()
        live, can, clones = self.resolve(step["args"])
        script = step.get("solver_fault")
        wfault = step.get("write_fault")
        files_before = dict(self.seams.fs.files)
        out1, res1, fired1 = self.one_call(name, live, script, wfault)
        if name in ("vertices", "plot_assumptions", "plot_guarantees") and not self.seams.plots_imported:
            # calling the plotting helper imports pacti.utils.plots (the caller's own import); the packrat flip
            # that comes with matplotlib is the one legitimate module-state change, as for the explicit event
            self.seams.plots_imported = True
            self.log.count("env:import_plots_via_vertices")
            self.expected_mod["packrat"] = sm.packrat_enabled()
        self.count("steps")
        cls = out1[0] if out1[0] != "exc" else "exc:" + out1[1]["cls"]
        self.outcomes.append(name + ":" + cls)
        self.count("outcome:" + name + ":" + cls)
        if fired1:
            self.count("steps_with_solver_fault_fired")
            # From here on the history oracles (O3c, O4, O5) are not asserted in this session: a solver that gave up is a
            # different dependency outcome, and e.g. a perfectly correct memo that cached the degraded answer would make
            # later equal calls differ from a pristine interpreter although the property holds (see DESIGN section 16).
            # Mutation, aliasing and module-state oracles (O1, O2, O3a, O3b) and all C14 oracles stay on.
            self.giveup_seen = True
        self.log.add("outcome", i, name, cls, env.digest(out1)[:12])

        # ---- O1 / O2: operands and module state untouched, returning or raising, faulted or not
        if "O1" in O:
            self.check_pool_untouched(i, name, "by the call", after_error=(out1[0] == "exc"))
            for k, a in step["args"].items():
                if "lit" in a and cn.canon(live[k]) != a["lit"]:
                    self.violate(i, name, "O1", {"what": "argument %s changed by the call" % k, "before": a["lit"], "after": cn.canon(live[k])}, "target=arg:" + k)
                    if out1[0] == "exc" and "E2" in O:
                        self.violate(i, name, "E2", {"what": "argument %s changed by a call that raised" % k}, "argument changed by a failing call")
                if "slots" in a:
                    # a list of pool members handed to the call (e.g. the contracts of write_contracts_to_file): the list itself is the caller's
                    want = [self.pool[sl] for sl in a["slots"]]
                    if len(live[k]) != len(want) or any(x is not y for x, y in zip(live[k], want)):
                        self.violate(i, name, "O1", {"what": "the list passed as argument %s was modified by the call" % k}, "target=arg:" + k)
        if "O2" in O:
            self.check_modstate(i, name, "by the call")
            if name in PARSE_OPS:
                self.parse_steps += 1
                if self.parse_steps % 6 == 1 or step.get("env"):
                    self.check_probe(i, name)

        # ---- C14 classification
        if out1[0] == "exc":
            info = out1[1]
            if "E1" in O:
                allowed = (info["module"], info["cls"]) in ALLOWED_EXC
                if name == "read_file" and info["cls"] == "JSONDecodeError":
                    allowed = True
                if wfault is not None and info["cls"] == "OSError":
                    allowed = True  # the injected fault itself, passed through unchanged
                if not allowed:
                    which = "E4" if fired1 else "E1"
                    self.violate(i, name, which, {"what": "undocumented exception type escaped", "exc": info, "solver_fault": script if fired1 else None},
                                 "exc=%s.%s at=%s" % (info["module"], info["cls"], info["where"]))
                elif name == "elim_relax" and info["cls"] == "IncompatibleArgsError" and not fired1 and not _jointly_feasible(can):
                    # E1c: relaxation can always eliminate (what it cannot rewrite it drops), so "variables cannot be eliminated"
                    # is not a possible cause; with the list unsatisfiable in its context the documented class is plain ValueError
                    self.violate(i, name, "E1c", {"what": "an unsatisfiable system reported as IncompatibleArgsError by a list-level relaxation", "exc": info}, "want=ValueError got=IncompatibleArgsError")
            if "E2" in O:
                self.after_error(i, name, step, can)
                if wfault is None and name != "compound_file" and self.seams.fs.files != files_before:
                    # E2f: a call that raised (no file-system fault injected) must leave the stored files, which are what the
                    # file operations operate on, as they were; compound_file is the harness's own write-then-read composite
                    changed = sorted(k for k in set(files_before) | set(self.seams.fs.files) if files_before.get(k) != self.seams.fs.files.get(k))
                    self.violate(i, name, "E2", {"what": "stored file changed by a call that raised", "files": changed, "exc": info,
                                                 "sizes_before": {k: len(files_before.get(k, "")) for k in changed}, "sizes_after": {k: len(self.seams.fs.files.get(k, "")) for k in changed}},
                                 "stored file changed by a failing call")
        if "E1b" in O and not fired1 and wfault is None:
            try:
                want = refmodel.expected_class(name, can)
            except (KeyError, TypeError, AttributeError):
                want = None
            if want is not None:
                self.count("E1b_cause_present")
                got = out1[1]["cls"] if out1[0] == "exc" else "returned"
                if got == "ValueError" and want == "IncompatibleArgsError" and not _jointly_feasible(can):
                    # two documented causes are present at once (interface problem AND an unsatisfiable system):
                    # the statement fixes no precedence between them, so either documented class is accepted
                    self.count("E1b_two_causes_either_class_accepted")
                    got = want
                if got != want:
                    self.violate(i, name, "E1b", {"what": "cause decidable from names requires %s" % want, "got": got, "args": can}, "want=%s got=%s" % (want, got))

        if name == "compound_purity" and out1[0] == "ok" and isinstance(res1, dict) and "O3" in O:
            self.count("compound_purity_checks")
            if not res1["operands_unchanged_by_calls"]:
                self.violate(i, name, "O1", {"what": "a compound contract changed while merge / intersect / copy / to_dict were called on it"}, "target=compound-operand")
            if not res1["operands_unchanged_by_editing_results"] or res1["results_sharing_with_operands"]:
                self.violate(i, name, "O3b", {"what": "objects derived from a compound contract share mutable state with it", "derived": res1["results_sharing_with_operands"]}, "target=compound-operand vandal")

        # ---- O3c: same call again, same arguments
        res2 = None
        if "O3" in O and name not in ("write_file", "write_file_mixed") and out1[0] != "crash":
            live2, _can2, _cl2 = self.resolve(step["args"])
            if "O1" in O:
                # arguments resolved from slots must still be canonically what they were
                pass
            out2, res2, _f2 = self.one_call(name, live2, script, wfault)
            self.count("second_calls")
            if _f2:
                self.giveup_seen = True
            if self.giveup_seen:
                self.count("history_oracles_skipped_after_giveup")
            elif out2[0] != out1[0] or (out1[0] == "ok" and out2 != out1) or (out1[0] == "exc" and out2[1]["cls"] != out1[1]["cls"]):
                self.violate(i, name, "O3c", {"what": "repeating the call immediately gave a different outcome", "first": _short(out1), "second": _short(out2)}, "repeat")
            if "O1" in O:
                self.check_pool_untouched(i, name, "by the repeated call")
            if "O2" in O:
                self.check_modstate(i, name, "by the repeated call")

        # ---- O3a: no mutable object shared between result and operands / pool / module globals / other result
        if "O3" in O and out1[0] == "ok" and res1 is not None:
            keep: Dict[int, Any] = {}
            r1 = cn.reach(res1, {})
            ext: Dict[int, Any] = {}
            for slot in sorted(self.pool):
                cn.reach(self.pool[slot], ext)
            for k, v in live.items():
                if k not in clones:
                    cn.reach(v, ext)
            for gobj in module_globals():
                cn.reach(gobj, ext)
            shared = [type(r1[x]).__name__ for x in r1 if x in ext]
            if shared:
                self.violate(i, name, "O3a", {"what": "result shares mutable objects with operands, pool or module globals", "kinds": sorted(set(shared)), "count": len(shared)}, "alias=operand:" + ",".join(sorted(set(shared))))
            if res2 is not None:
                r2 = cn.reach(res2, {})
                both = [type(r1[x]).__name__ for x in r1 if x in r2]
                if both:
                    self.violate(i, name, "O3a", {"what": "two calls returned results that share mutable objects", "kinds": sorted(set(both))}, "alias=results:" + ",".join(sorted(set(both))))
            keep.update(r1)
            # ---- O3b: vandalise one result; nothing else may notice
            victim = res2 if res2 is not None else None
            if victim is not None:
                before = cn.canon(ops.strip_timings(name, res1))
                cn.vandalise(victim)
                self.count("results_vandalised")
                if "O1" in O:
                    self.check_pool_untouched(i, name, "vandalising the result")
                    for k, a in step["args"].items():
                        if "lit" in a and cn.canon(live[k]) != a["lit"]:
                            self.violate(i, name, "O3b", {"what": "argument %s changed when the result was mutated" % k}, "target=arg:%s vandal" % k)
                if "O2" in O:
                    self.check_modstate(i, name, "vandalising the result")
                if cn.canon(ops.strip_timings(name, res1)) != before:
                    self.violate(i, name, "O3b", {"what": "mutating the second result changed the first"}, "target=first-result vandal")

        # ---- O4: the same call on canonically equal arguments in a pristine interpreter
        if "O4" in O and not self.giveup_seen and wfault is None and out1[0] != "crash":
            req = {"kind": "call", "op": name, "args": can, "files": files_before, "clock": self.plan.get("clock")}
            st, ans = self.pristine(req)
            if st == "ok":
                self.count("pristine_replays")
                same = ans[0] == out1[0] and (ans == out1 if out1[0] == "ok" else ans[1]["cls"] == out1[1]["cls"] and ans[1]["module"] == out1[1]["module"])
                if not same:
                    self.violate(i, name, "O4", {"what": "outcome differs from the same call in a pristine interpreter", "session": _short(out1), "pristine": _short(ans),
                                                 "packrat": sm.packrat_enabled(), "plots_imported": self.seams.plots_imported}, "history")
            elif st == "timeout":
                self.count("pristine_timeouts")
            elif st == "died":
                self.count("pristine_died")

        # ---- O3d: the same call repeated LATER in the session (operands canonically unchanged in between)
        clean = not self.giveup_seen and script is None and wfault is None and out1[0] != "crash"
        if "O3" in O and clean and step.get("repeat_of") is not None:
            # (in a shrunk plan the index may point elsewhere: look the earlier call up by operation and canonical arguments)
            k = step["repeat_of"]
            h = self.history[k] if k < len(self.history) and self.history[k]["step"]["op"] == name and self.history[k]["can"] == can else None
            if h is None:
                for cand in self.history:
                    if cand["step"]["op"] == name and cand["can"] == can:
                        h = cand
                        break
            if h is not None:
                self.count("late_repeats")
            if h is not None and _outcome_key(out1) != h["outcome"]:
                self.violate(i, name, "O3d", {"what": "the same call on canonically equal arguments, repeated %d steps later in the session, gave a different outcome" % (i - h["step_index"]),
                                              "earlier": _short(h["outcome"]), "now": _short(out1)}, "repeat-later")
        if clean and name not in ("write_file", "read_file", "compound_file", "write_file_mixed"):
            self.history.append({"step_index": i, "step": step, "can": can, "outcome": _outcome_key(out1)})

        # ---- O5 bookkeeping
        if name == "parse" and not self.giveup_seen:
            s = step["args"]["s"]["lit"]
            if s not in self.parses:
                self.parses[s] = _outcome_key(out1)

        # ---- result feeds the pool
        if out1[0] == "ok" and step.get("dst"):
            kind, item = ops.pool_item(name, res1)
            dst = step["dst"]
            if item is not None and dst.startswith(kind):
                self.pool[dst] = item
                self.snap[dst] = cn.canon(item)
                self.recent[kind] = dst
                if '"0x0.0p+0"]]' in __import__("json").dumps(self.snap[dst].get("C", [0, 0, self.snap[dst], self.snap[dst]])[2:]):
                    self.count("zero_coeff_terms_in_pool")
                self.count("pool_updates")

    def after_error(self, i: int, name: str, step: Dict, can: Dict[str, Any]) -> None:
        """E2: an error leaves all operands usable — a follow-up battery matches the pristine interpreter."""
        if self.giveup_seen:
            # same narrow relaxation as for the history oracles: after an injected solver give-up a (correct) cache may hold
            # an answer computed while the solver gave up, and a follow-up would differ from the pristine interpreter
            self.count("E2_followups_skipped_after_giveup")
            return
        for k, a in step["args"].items():
            if "slot" not in a:
                continue
            slot = a["slot"]
            obj = self.pool[slot]
            follow = ["to_machine_dict", "copy"] if slot.startswith("C") else ["to_str_list", "tl_copy"]
            for f in follow:
                out, _r, _f = self.one_call(f, {"self": obj}, None, None)
                self.count("E2_followups")
                # compared with the same follow-up on the operand AS IT WAS BEFORE the failing call
                st, ans = self.pristine({"kind": "call", "op": f, "args": {"self": can[k]}, "files": {}, "clock": self.plan.get("clock")})
                if st != "ok":
                    continue
                same = ans[0] == out[0] and (ans == out if out[0] == "ok" else ans[1]["cls"] == out[1]["cls"])
                if not same:
                    self.violate(i, name, "E2", {"what": "operand %s not usable as before after the error" % slot, "follow_up": f, "session": _short(out), "pristine": _short(ans)}, "followup=" + f)

    def finish(self, n: int) -> None:
        O = self.oracles
        if "O1" in O:
            self.check_pool_untouched(n, "end", "by the end of the session")
        if "O2" in O:
            self.check_modstate(n, "end", "by the end of the session")
            self.check_probe(n, "end")
        if "O5" in O and not self.giveup_seen:
            from pacti.terms.polyhedra import serializer  # noqa: WPS433

            for s in sorted(self.parses):
                try:
                    now = ["ok", cn.canon(serializer.polyhedral_termlist_from_string(s))]
                except Exception as e:  # noqa: WPS429
                    now = ["exc", exc_info(e)]
                self.count("O5_reparses")
                if _outcome_key(now) != self.parses[s]:
                    self.violate(n, "parse", "O5", {"what": "parsing the same string again gave a different result", "string": s, "packrat": sm.packrat_enabled()}, "reparse")

    def result(self) -> Dict:
        nontrivial = any(o.endswith(":ok") and o.split(":")[0] in ("compose", "compose_tactics", "quotient", "quotient_tactics", "merge", "elim_refine", "elim_relax", "tl_simplify") for o in self.outcomes) and any(":exc:" in o for o in self.outcomes)
        return {
            "violations": self.violations,
            "stats": self.stats,
            "counts": self.log.counts,
            "outcomes": self.outcomes,
            "log_digest": env.digest(self.log.events),
            "pool_digest": env.digest([self.snap[s] for s in sorted(self.snap)]),
            "sim_time_s": self.seams.clock.elapsed,
            "nontrivial": nontrivial,
            "triples": self.triples,
            "plan": self.plan,
            "zero_terms": self.stats.get("zero_coeff_terms_in_pool", 0),
        }


def _jointly_feasible(can_args: Dict[str, Any]) -> bool:
    """Harness-side LP (real scipy, not the seam): are all constraints of all contract / list arguments satisfiable together?
    Unknown counts as infeasible (i.e. the stricter E1b verdict is not applied)."""
    import numpy as np  # noqa: WPS433

    rows = []
    for v in can_args.values():
        if isinstance(v, dict) and "C" in v:
            rows.extend(v["C"][2]["TL"])
            rows.extend(v["C"][3]["TL"])
        elif isinstance(v, dict) and "TL" in v:
            rows.extend(v["TL"])
    names: List[str] = []
    for t in rows:
        for k, _c in t["T"]:
            if k not in names:
                names.append(k)
    if not rows:
        return True
    if not names:
        return all(float.fromhex(t["c"][1]) >= 0 for t in rows)
    a = np.zeros((len(rows), len(names)))
    b = np.zeros(len(rows))
    for i, t in enumerate(rows):
        for k, c in t["T"]:
            a[i, names.index(k)] = float.fromhex(c[1])
        b[i] = float.fromhex(t["c"][1])
    try:
        res = sm.REAL_LINPROG(c=np.zeros(len(names)), A_ub=a, b_ub=b, bounds=(None, None))
    except Exception:  # noqa: WPS429
        return False
    return int(res.status) in (0, 3)


def _short(out: Any) -> Any:
    s = repr(out)
    return s if len(s) < 1500 else s[:1500] + "..."


def _outcome_key(out: List) -> Any:
    if out[0] == "exc":
        return ["exc", out[1]["cls"]]
    return out
