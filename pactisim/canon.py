"""Harness-built canonical forms of pacti objects (JSON-native), their inverse, reachability and vandalism.

Canonical forms never go through pacti's own copy/__eq__/__hash__ (those are code under test).
Numbers keep their Python type name and exact bits: ["float", "0x1.8p+1"], ["float64", ...], ["int", "3"].
Dict insertion order and list order are preserved.
"""
from __future__ import annotations

from typing import Any, Dict, List

import numpy as np

from pacti.contracts import PolyhedralIoContract, PolyhedralIoContractCompound
from pacti.contracts.polyhedral_iocontract import NestedPolyhedra
from pacti.iocontract import IoContract, Var
from pacti.terms.polyhedra import PolyhedralTerm, PolyhedralTermList

from pactisim.env import HarnessError


def num(x: Any) -> List:
    if isinstance(x, bool):
        return ["bool", x]
    if isinstance(x, (int, np.integer)):
        return [type(x).__name__, str(int(x))]
    if isinstance(x, (float, np.floating)):
        return [type(x).__name__, float(x).hex()]
    raise HarnessError("not a number: %r" % (x,))


def unnum(c: List) -> Any:
    t, v = c
    if t == "bool":
        return bool(v)
    if t == "int":
        return int(v)
    if t == "float":
        return float.fromhex(v)
    if t == "float64":
        return np.float64(float.fromhex(v))
    if t == "int64":
        return np.int64(int(v))
    if t in ("float32",):
        return np.float32(float.fromhex(v))
    raise HarnessError("unknown numeric type %s" % t)


def canon(o: Any) -> Any:  # noqa: WPS212, WPS231
    if o is None:
        return None
    if isinstance(o, str):
        return o
    if isinstance(o, (bool, int, float, np.integer, np.floating)):
        return num(o)
    if isinstance(o, Var):
        return {"V": o.name}
    if isinstance(o, PolyhedralTerm):
        return {"T": [[k.name if isinstance(k, Var) else ["?", repr(k)], _cnum(v)] for k, v in o.variables.items()], "c": _cnum(o.constant)}
    if isinstance(o, PolyhedralTermList):
        return {"TL": [canon(t) for t in o.terms]}
    if isinstance(o, PolyhedralIoContract):
        return {"C": [[_vname(v) for v in o.inputvars], [_vname(v) for v in o.outputvars], canon(o.a), canon(o.g)]}
    if isinstance(o, NestedPolyhedra):
        return {"N": [canon(tl) for tl in o.nested_termlist]}
    if isinstance(o, PolyhedralIoContractCompound):
        return {"CC": [[_vname(v) for v in o.inputvars], [_vname(v) for v in o.outputvars], canon(o.a), canon(o.g)]}
    if isinstance(o, IoContract):
        return {"IOC": [[_vname(v) for v in o.inputvars], [_vname(v) for v in o.outputvars], canon(o.a), canon(o.g)]}
    if isinstance(o, list):
        return {"L": [canon(x) for x in o]}
    if isinstance(o, tuple):
        return {"Tu": [canon(x) for x in o]}
    if isinstance(o, dict):
        return {"D": [[canon(k), canon(v)] for k, v in o.items()]}
    if isinstance(o, np.ndarray):
        return {"A": [list(o.shape), str(o.dtype), [_cnum(x) for x in o.ravel().tolist()]]}
    return {"OBJ": type(o).__module__ + "." + type(o).__name__}


def _vname(v: Any) -> Any:
    """Name of a Var; anything else (only possible after the code under test or the vandal put it there) is kept visible."""
    return v.name if isinstance(v, Var) else {"NOT_A_VAR": repr(v)[:60]}


def _cnum(v: Any) -> Any:
    try:
        return num(v)
    except HarnessError:
        return {"OBJ": type(v).__module__ + "." + type(v).__name__, "repr": repr(v)[:60]}


def _term(c: Dict) -> PolyhedralTerm:
    t = PolyhedralTerm.__new__(PolyhedralTerm)
    t.variables = {Var(k): unnum(v) for k, v in c["T"]}
    t.constant = unnum(c["c"])
    return t


def _tl(c: Dict) -> PolyhedralTermList:
    tl = PolyhedralTermList.__new__(PolyhedralTermList)
    tl.terms = [_term(t) for t in c["TL"]]
    return tl


def rebuild(c: Any) -> Any:  # noqa: WPS212, WPS231
    """Inverse of canon: sets attributes directly so that dict order, zero entries and numeric types survive."""
    if c is None or isinstance(c, str):
        return c
    if isinstance(c, list):
        return unnum(c)
    if not isinstance(c, dict) or len([k for k in c if k != "c"]) != 1:
        raise HarnessError("bad canonical form %r" % (c,))
    if "V" in c:
        return Var(c["V"])
    if "T" in c:
        return _term(c)
    if "TL" in c:
        return _tl(c)
    if "C" in c:
        ins, outs, a, g = c["C"]
        k = PolyhedralIoContract.__new__(PolyhedralIoContract)
        k.inputvars = [Var(x) for x in ins]
        k.outputvars = [Var(x) for x in outs]
        k.a = _tl(a)
        k.g = _tl(g)
        return k
    if "N" in c:
        n = NestedPolyhedra.__new__(NestedPolyhedra)
        n.nested_termlist = [_tl(x) for x in c["N"]]
        return n
    if "CC" in c:
        ins, outs, a, g = c["CC"]
        k = PolyhedralIoContractCompound.__new__(PolyhedralIoContractCompound)
        k.inputvars = [Var(x) for x in ins]
        k.outputvars = [Var(x) for x in outs]
        k.a = rebuild(a)
        k.g = rebuild(g)
        return k
    if "L" in c:
        return [rebuild(x) for x in c["L"]]
    if "Tu" in c:
        return tuple(rebuild(x) for x in c["Tu"])
    if "D" in c:
        return {rebuild(k): rebuild(v) for k, v in c["D"]}
    if "A" in c:
        shape, dtype, flat = c["A"]
        return np.array([unnum(x) for x in flat], dtype=dtype).reshape(shape)
    raise HarnessError("cannot rebuild %r" % (c,))


# ------------------------------------------------------------------------------ reachability / aliasing
_MUTABLE = (list, dict, PolyhedralTerm, PolyhedralTermList, IoContract, NestedPolyhedra, PolyhedralIoContractCompound, np.ndarray, set)


def reach(o: Any, acc: Dict[int, Any]) -> Dict[int, Any]:
    """All mutable objects reachable from o, keyed by id and kept alive in acc (no id reuse while acc lives)."""
    stack = [o]
    while stack:
        x = stack.pop()
        if not isinstance(x, _MUTABLE) and not isinstance(x, tuple):
            continue
        if isinstance(x, _MUTABLE):
            if id(x) in acc:
                continue
            acc[id(x)] = x
        if isinstance(x, (list, tuple, set)):
            stack.extend(x)
        elif isinstance(x, dict):
            stack.extend(x.keys())
            stack.extend(x.values())
        elif isinstance(x, np.ndarray):
            if x.base is not None:
                stack.append(x.base)
        elif hasattr(x, "__dict__"):
            stack.extend(vars(x).values())
    return acc


def vandalise(o: Any, depth: int = 0) -> None:  # noqa: WPS231
    """Mutate in place everything mutable that is reachable from a *result* object."""
    if depth > 12:
        return
    if isinstance(o, PolyhedralTerm):
        for k in list(o.variables.keys()):
            o.variables[k] = o.variables[k] * -7.0 + 3.0
        o.variables[Var("vandal__")] = 99.0
        o.constant = -12345.5
    elif isinstance(o, PolyhedralTermList):
        for t in list(o.terms):
            vandalise(t, depth + 1)
        o.terms.append(PolyhedralTerm({Var("vandal__"): 1.0}, -1.0))
        o.terms.reverse()
    elif isinstance(o, (IoContract, PolyhedralIoContractCompound)):
        vandalise(o.a, depth + 1)
        vandalise(o.g, depth + 1)
        o.inputvars.append(Var("vandal_in__"))
        o.outputvars.insert(0, Var("vandal_out__"))
    elif isinstance(o, NestedPolyhedra):
        for tl in list(o.nested_termlist):
            vandalise(tl, depth + 1)
        o.nested_termlist.append(PolyhedralTermList([]))
    elif isinstance(o, list):
        for x in list(o):
            vandalise(x, depth + 1)
        o.append("vandal__")
        o.reverse()
    elif isinstance(o, dict):
        for k in list(o.keys()):
            v = o[k]
            vandalise(v, depth + 1)
            if isinstance(v, (int, float)) and not isinstance(v, bool):
                o[k] = v * -3.0 + 1.0
            elif isinstance(v, str):
                o[k] = v + "#"
        o["vandal__"] = 1
    elif isinstance(o, tuple):
        for x in o:
            vandalise(x, depth + 1)
    elif isinstance(o, np.ndarray):
        if o.flags.writeable and o.size:
            o *= 0
