"""C14 check: failures are reported only through the documented exceptions (DESIGN §7).

  E3  exhaustive single-field corruption of stored records + torn files      (fault enumeration, exhaustive)
  E1  exception classification over simulated sessions and algebra programs   (seeded exploration)
  E1b right kind of documented error where the cause is decidable from names
  E2  an error leaves all operands usable
  E4  the solver gives up at the k-th call of a given LP site                 (fault enumeration by op x site)
"""
from __future__ import annotations

import json
import os
import subprocess
import time
from typing import Any, Dict, List, Optional, Tuple

from pactisim import env, runner, sessbatch, sessrun
from pactisim.env import HarnessError

PROP = "C14"
ORACLES = ["O1", "O2", "E1", "E1b", "E2"]
RUNS = {"quick": 800, "thorough": 24_000}
E4_RUNS = {"quick": 400, "thorough": 12_000}
ALGEBRA_RUNS = {"quick": 20_000, "thorough": 2_000_000}
WALL_CAP = {"quick": 1500.0, "thorough": 5 * 3600.0}
CHUNK = 10


def profile(e4: bool = False) -> Dict:
    from pactisim import ops  # noqa: WPS433

    p = {
        "ops": list(ops.C13_OPS) + list(ops.C14_EXTRA_OPS),
        "lengths": [6, 10, 16, 24, 30],
        "weights": {"compose": 2.5, "compose_tactics": 2.5, "quotient": 2.5, "quotient_tactics": 2.5, "elim_refine": 3.0, "elim_relax": 2.5,
                    "tl_rename_variable": 2.0, "rename_variable": 1.5, "tl_simplify": 2.0, "vertices": 1.5, "plot_assumptions": 0.7, "plot_guarantees": 0.7, "merge": 1.2, "c_str": 0.3, "c_hash": 0.3,
                    "term_copy": 0.3, "tl_copy": 0.5, "copy": 0.7},
        "p_plots": 0.3,
        "p_logging": 0.3,
        "solver_fault_rates": [0.0, 0.0, 0.05, 0.15],
        "fs_fault_rates": [0.0, 0.3],
    }
    if e4:
        p["e4_sweep"] = True
        p["solver_fault_rates"] = [1.0]
        p["fs_fault_rates"] = [0.0]
    return p


def _records() -> Tuple[Dict, Dict, List[Dict]]:
    from pactisim import records  # noqa: WPS433

    st, res = runner.run_isolated(lambda _x: (records.enumerate_records(), records.enumerate_torn(), records.enumerate_oddities()), None, 900)
    if st != "ok":
        raise HarnessError("record enumeration failed: %s %s" % (st, str(res)[-3000:]))
    rec, torn, odd = res
    torn["oddities"] = {"cases": odd["cases"], "outcomes": odd["outcomes"]}
    torn["cases"] += odd["cases"]
    failures = []
    for f in rec["failures"] + torn["failures"] + odd["failures"]:
        f = dict(f)
        f["property"] = PROP
        f["oracle"] = "E3"
        failures.append(f)
    return rec, torn, failures


def _algebra(n: int, base: int) -> Tuple[Dict, List[Dict]]:
    """C05 programs, looked at only for the class of what they raise."""
    from pactisim import check_c05  # noqa: WPS433

    jobs = [(s, e, base) for s, e in runner.chunked(n, check_c05.CHUNK)]
    parts, _tr = runner.map_chunks(check_c05._work, jobs, runner.n_workers(), 1800)  # noqa: WPS437
    runs = sum(p["runs"] for p in parts)
    outcomes: Dict[str, int] = {}
    bad = []
    for p in parts:
        runner.merge_counts(outcomes, p["outcomes"])
        for o in p["other_exceptions"]:
            bad.append({"property": PROP, "oracle": "E1", "op": o["exc"]["where"], "key": "E1 algebra-over-stub op=%s exc=%s" % (o["exc"]["where"], o["exc"]["exc"]),
                        "detail": o["exc"], "plan": o["plan"], "run": o["run"]})
    raised = sum(v for k, v in outcomes.items() if k.endswith("Error"))
    return {"programs": runs, "calls_that_raised": raised, "outcomes": dict(sorted(outcomes.items())), "non_documented": len(bad)}, bad


def replay(path: str) -> int:
    with open(path) as f:
        doc = json.load(f)
    kind = doc.get("kind", "session")
    if kind == "session":
        return sessbatch.replay_file(PROP, path)
    if kind == "record":
        from pactisim import records, seams as sm  # noqa: WPS433
        from pacti.contracts import PolyhedralIoContract  # noqa: WPS433
        from pacti.terms.polyhedra import serializer  # noqa: WPS433
        from pacti.utils import fileio  # noqa: WPS433

        s = sm.Seams()
        s.install()
        ep = doc["entry_point"]
        if ep == "read_contracts_from_file":
            s.fs.files["bad.json"] = doc["file_text"]
            res = records.classify(fileio.read_contracts_from_file, "bad.json")
        elif ep == "validate_contract_dict":
            res = records.classify(serializer.validate_contract_dict, doc["data"], "c", doc["machine"])
        elif ep == "from_dict":
            res = records.classify(PolyhedralIoContract.from_dict, doc["data"])
        else:
            raise HarnessError("unknown entry point %s" % ep)
        runner.say("replay: %s -> %s (%s)" % (ep, res["verdict"], res["how"]))
        if res["verdict"] != "rejected":
            known_open = {k["key"] for k in runner.load_known() if k.get("property") == PROP and k.get("status") == "open"}
            if doc["violation"]["key"] in known_open:
                runner.say("KNOWN-FINDING: property=%s %s" % (PROP, doc["violation"]["key"]))
                return env.EXIT_OK
            runner.say("VIOLATION property=%s replay=%s" % (PROP, path))
            return env.EXIT_VIOLATION
        return env.EXIT_OK
    if kind == "algebra":
        from pactisim import c05  # noqa: WPS433

        res = c05.execute(doc["plan"])
        if res["other_exceptions"]:
            runner.say("replay: %s" % res["other_exceptions"][0])
            runner.say("VIOLATION property=%s replay=%s" % (PROP, path))
            return env.EXIT_VIOLATION
        runner.say("replay: no violation")
        return env.EXIT_OK
    raise HarnessError("unknown replay kind %s" % kind)


def _report_simple(items: List[Dict], kind: str, base: int, limit: int = 6) -> Tuple[int, List[Dict], List[Dict], int]:
    """Records / algebra findings: split off known ones, one replay file per distinct key."""
    fresh, known_seen = runner.split_known(PROP, items)
    for k in known_seen:
        runner.say("KNOWN-FINDING: property=%s %s" % (PROP, k["key"]))
    by_key: Dict[str, Dict] = {}
    for it in fresh:
        by_key.setdefault(it["key"], it)
    reported = []
    code = env.EXIT_OK
    for n, key in enumerate(sorted(by_key)):
        it = by_key[key]
        if n >= limit:
            break
        if kind == "record":
            doc = {"kind": "record", "property": PROP, "violation": {k: it.get(k) for k in ("key", "id", "verdict", "how", "where", "oracle")},
                   "entry_point": it["entry_point"], "machine": "machine" in it["key"],
                   "data": (it.get("corrupted_entry") or {}).get("data") if isinstance(it.get("corrupted_entry"), dict) else None,
                   "file_text": it["file_text"] if "file_text" in it else json.dumps([it.get("corrupted_entry")], indent=2)}
            if it["entry_point"] == "read_contracts_from_file" and "corrupted_entry" not in it and "file_text" not in it:
                continue
        else:
            doc = {"kind": "algebra", "property": PROP, "violation": {"key": it["key"], "detail": it["detail"]}, "plan": it["plan"]}
        path = runner.write_replay(PROP, "%s-%d-%d" % (kind, base, n), doc)
        cp = subprocess.run([os.path.join(env.VERIF_DIR, "check"), PROP, "--replay", path], capture_output=True, text=True, timeout=600)
        if "VIOLATION property=%s" % PROP not in cp.stdout:
            runner.say("HARNESS-ERROR: %s finding does not reproduce in a fresh interpreter: %s\n%s" % (kind, path, cp.stdout[-1500:] + cp.stderr[-1500:]))
            return env.EXIT_HARNESS, reported, known_seen, len(by_key)
        runner.say("VIOLATION property=%s replay=%s" % (PROP, path))
        runner.say("  %s" % key)
        reported.append({"key": key, "replay": path})
        code = env.EXIT_VIOLATION
    if len(by_key) > limit:
        runner.say("  ... and %d more distinct %s findings (listed in the evidence file)" % (len(by_key) - limit, kind))
    return code, reported, known_seen, len(by_key)


def run(tier: str, runs_override: Optional[int] = None, only: Optional[str] = None) -> int:  # noqa: WPS231
    t0 = time.monotonic()
    base = env.base_seed()
    parts = set((only or "records,sessions,e4,algebra").split(","))
    code = env.EXIT_OK
    cov: Dict[str, Any] = {}
    reported: List[Dict] = []
    known_all: List[str] = []
    n_viol = 0
    evaluations = 0
    distinct = 0
    samples: List[Any] = []
    batch_digest = None

    # ---------------- E3 (exhaustive, finite)
    if "records" in parts:
        rec, torn, failures = _records()
        c, rep, known_seen, nkeys = _report_simple(failures, "record", base)
        if c == env.EXIT_HARNESS:
            return c
        code = max(code, c)
        reported.extend(rep)
        known_all.extend(k["key"] for k in known_seen)
        n_viol += len(failures)
        evaluations += rec["cases"] + torn["cases"]
        distinct += rec["cases"] + torn["cases"]
        samples.extend(rec["samples"][:2])
        cov["E3_records"] = {"corruptions": rec["cases"], "checks_by_verdict": rec["by_verdict"], "exhaustive": True,
                             "distinct_failure_keys": nkeys, "failure_keys": sorted({f["key"] for f in failures})[:200],
                             "torn_missing_and_odd_file_cases": torn["cases"], "torn_reader_outcomes": torn["how"],
                             "well_kinded_but_odd_records": torn.get("oddities")}

    # ---------------- E1 / E1b / E2 over sessions
    if "sessions" in parts:
        n = runs_override or int(os.environ.get("PACTISIM_C14_RUNS", "0")) or RUNS[tier]
        tot = sessbatch.run_batch(PROP, n, base, profile(), ORACLES, CHUNK, WALL_CAP[tier])
        if tot["harness"]:
            runner.say("HARNESS-ERROR: %d sessions failed inside the harness; first:\n%s" % (len(tot["harness"]), tot["harness"][0]["trace"]))
            return env.EXIT_HARNESS
        lost = tot["discarded_timeout"] + tot["discarded_died"]
        if tot["runs"] and lost > max(2, 0.02 * tot["runs"]):
            runner.say("HARNESS-ERROR: %d of %d sessions lost" % (lost, tot["runs"]))
            return env.EXIT_HARNESS
        c, rep, known_seen = sessbatch.process_violations(PROP, base, tot, ORACLES)
        if c == env.EXIT_HARNESS:
            return c
        code = max(code, c)
        reported.extend(rep)
        known_all.extend(k["key"] for k in known_seen)
        n_viol += tot["n_violating"]
        evaluations += tot["runs"]
        distinct += tot["distinct_pool_states"]
        samples.extend(tot["samples"][:1])
        batch_digest = tot["batch_digest"]
        cov["E1_sessions"] = _session_cov(tot)

    # ---------------- E4 sweep
    if "e4" in parts:
        n4 = (runs_override or 0) or int(os.environ.get("PACTISIM_C14_E4_RUNS", "0")) or E4_RUNS[tier]
        tot4 = sessbatch.run_batch(PROP, n4, base + 1_000_003, profile(e4=True), ["O1", "O2", "E1", "E2"], CHUNK, WALL_CAP[tier])
        if tot4["harness"]:
            runner.say("HARNESS-ERROR: %d E4 sessions failed inside the harness; first:\n%s" % (len(tot4["harness"]), tot4["harness"][0]["trace"]))
            return env.EXIT_HARNESS
        c, rep, known_seen = sessbatch.process_violations(PROP, base + 1_000_003, tot4, ["O1", "O2", "E1", "E2"])
        if c == env.EXIT_HARNESS:
            return c
        code = max(code, c)
        reported.extend(rep)
        known_all.extend(k["key"] for k in known_seen)
        n_viol += tot4["n_violating"]
        evaluations += tot4["runs"]
        cnt = tot4["counts"]
        reach = {k[len("reach:"):]: v for k, v in cnt.items() if k.startswith("reach:")}
        fired = {k[len("fired:"):]: v for k, v in cnt.items() if k.startswith("fired:")}
        cov["E4_solver_giveup"] = {
            "sessions": tot4["runs"], "steps": tot4["stats"].get("steps", 0),
            "faults_fired_by_kind": {k: v for k, v in sorted(cnt.items()) if k.startswith("fault_fired:")},
            "faults_fired_by_site": {k[len("fault_fired_site:"):]: v for k, v in sorted(cnt.items()) if k.startswith("fault_fired_site:")},
            "op_x_site_pairs_reached": len(reach), "op_x_site_pairs_with_a_fired_giveup": len(fired),
            "pairs_reached_never_faulted": sorted(set(reach) - set(fired)),
            "fired_by_op_x_site": dict(sorted(fired.items())),
            "authentic_giveup_response": _giveup_probe(),
        }

    # ---------------- algebra programs (stub domain): only documented classes may come out
    if "algebra" in parts:
        an = ALGEBRA_RUNS[tier]
        acov, bad = _algebra(an, base)
        c, rep, known_seen, _nk = _report_simple(bad, "algebra", base)
        if c == env.EXIT_HARNESS:
            return c
        code = max(code, c)
        reported.extend(rep)
        n_viol += len(bad)
        evaluations += acov["programs"]
        cov["E1_algebra_over_stub"] = acov

    wall = time.monotonic() - t0
    evidence = {
        "property_id": PROP,
        "tier": tier,
        "seed": base,
        "level": "fault_enumeration",
        "wall_s": round(wall, 2),
        "violations": n_viol,
        "assumptions": [
            "arguments are generated well-formed only (documented types; tactic numbers from the TACTICS keys)",
            "documented classes: ValueError itself, pacti's IncompatibleArgsError / ContractFormatError / PolyhedralSyntaxException / PolyhedralSyntaxConvexException, json.JSONDecodeError from the file reader; classified by exact class and defining module",
            "an injected OSError from the simulated disk passing through the writer unchanged is the fault itself, not a violation",
            "under an injected solver give-up nothing is asserted about returned values, only that the call returns or raises a documented error",
            "int<->float and removal of list elements / optional coefficient entries are not kind changes and are not enumerated",
        ],
        "coverage": {
            "evaluations": evaluations,
            "distinct_nontrivial": max(distinct, 0),
            "rule": "evaluations = stored-record corruptions and torn-file cases (each distinct by construction, enumerated exhaustively) + simulated sessions (E1/E1b/E2 and the E4 solver-give-up sweep) + algebra programs over the stub domain; distinct_nontrivial = record/torn cases (all distinct, all non-trivial: each is a corrupted record presented to an entry point) + distinct final pool states of sessions in which an algebraic operation returned and a call raised",
            "samples": samples[:3] or [{"note": "no sample in this partial run"}],
            "exhaustive": bool(cov.get("E3_records", {}).get("exhaustive")) and parts == {"records"},
            "exhaustive_note": "E3 (records, torn files) is enumerated completely in both tiers; E1/E1b/E2/E4 are seeded",
            "parts_run": sorted(parts),
            "batch_digest": batch_digest,
            "reported": reported,
            "known_findings_seen": sorted(set(known_all)),
            "components": {
                "real": ["everything under /repo/src/pacti", "scipy/HiGHS", "sympy", "pyparsing", "json"],
                "simulated": ["file system (fileio.open/os)", "clock", "solver at faulted calls only (authentic give-up response from real HiGHS)", "constraint domain in the algebra-over-stub part"],
            },
        },
    }
    evidence["coverage"].update(cov)
    runner.write_evidence(PROP, evidence)
    runner.say("C14 %s: parts=%s evaluations=%d violations=%d known=%d %.1fs" % (tier, ",".join(sorted(parts)), evaluations, n_viol, len(set(known_all)), wall))
    return code


def _session_cov(tot: Dict) -> Dict:
    st, cnt = tot["stats"], tot["counts"]
    outcomes: Dict[str, Dict[str, int]] = {}
    for k, v in st.items():
        if k.startswith("outcome:"):
            _o, op, cls = k.split(":", 2)
            outcomes.setdefault(op, {})[cls] = v
    classes: Dict[str, int] = {}
    for op, d in outcomes.items():
        for cls, v in d.items():
            classes[cls] = classes.get(cls, 0) + v
    return {
        "sessions": tot["runs"], "steps": st.get("steps", 0), "calls_by_outcome_class": dict(sorted(classes.items())),
        "outcomes_by_op": {k: outcomes[k] for k in sorted(outcomes)},
        "E1b_calls_with_a_name_decidable_cause": st.get("E1b_cause_present", 0),
        "E2_followups_after_errors": st.get("E2_followups", 0),
        "faults_fired": {k: v for k, v in sorted(cnt.items()) if k.startswith("fault_")},
        "env_events": {k: v for k, v in sorted(cnt.items()) if k.startswith("env:")},
        "lp_calls_by_site_status": {k[3:]: v for k, v in sorted(cnt.items()) if k.startswith("lp:")},
        "sympy_solve_by_unknowns_and_outcome": {k[len("sympy_solve:"):]: v for k, v in sorted(cnt.items()) if k.startswith("sympy_solve:")},
        "natural_solver_giveups_by_site_status": {k[len("natural_solver_giveup:"):]: v for k, v in sorted(cnt.items()) if k.startswith("natural_solver_giveup:")},
        "simulated_time_s": round(tot["sim_time_s"], 3),
        "distinct_states": {"measure": "distinct final pool-state digests (non-trivial sessions)", "count": tot["distinct_pool_states"]},
        "distinct_op_trigrams": tot["distinct_op_trigrams"],
        "sessions_discarded": tot["discarded_timeout"] + tot["discarded_died"],
        "runs_per_hour": int(tot["runs"] / max(tot["wall_search_s"], 1e-9) * 3600),
        "truncated_by_wall_cap": tot["truncated"],
    }


def _giveup_probe() -> Dict:
    st, res = runner.run_isolated(lambda _x: __import__("pactisim.seams", fromlist=["x"]).authentic_giveup_probe(), None, 120)
    return res if st == "ok" else {"error": st}
