"""Entry point: ./check <C05|C13|C14|setup|selftest> ...   (see DESIGN.md section 13)."""
from __future__ import annotations

import argparse
import os
import sys
import traceback

HERE = os.path.dirname(os.path.abspath(__file__))
sys.path.insert(0, os.path.dirname(HERE))

from pactisim import env, runner  # noqa: E402
from pactisim.env import HarnessError  # noqa: E402


def _setup() -> int:
    env.install_pacti_path()
    f = env.assert_pacti_from_tree()
    import numpy  # noqa: WPS433, F401
    import scipy  # noqa: WPS433, F401
    import sympy  # noqa: WPS433, F401

    os.makedirs(env.EVIDENCE_DIR, exist_ok=True)
    os.makedirs(env.REPLAY_DIR, exist_ok=True)
    runner.say("setup ok: python %s, pacti from %s" % (sys.version.split()[0], f))
    return 0


def main(argv) -> int:
    ap = argparse.ArgumentParser(prog="check")
    ap.add_argument("what")
    ap.add_argument("rest", nargs="*")
    ap.add_argument("--tier", default=None)
    ap.add_argument("--replay", default=None)
    ap.add_argument("--runs", type=int, default=None)
    ap.add_argument("--seed", type=int, default=None)
    ap.add_argument("--workers", type=int, default=None)
    ap.add_argument("--only", default=None)
    args = ap.parse_args(argv)
    if args.seed is not None:
        os.environ["VERIF_SEED"] = str(args.seed)
    if args.workers is not None:
        os.environ["PACTISIM_WORKERS"] = str(args.workers)
    what = args.what
    try:
        if what == "setup":
            return _setup()
        env.install_pacti_path()
        env.assert_pacti_from_tree()
        if what == "C05":
            from pactisim import check_c05  # noqa: WPS433

            if args.replay:
                return check_c05.replay(args.replay)
            return check_c05.run(runner.tier_from_args(args.tier), args.runs)
        if what == "C13":
            from pactisim import check_c13  # noqa: WPS433

            if args.replay:
                return check_c13.replay(args.replay)
            return check_c13.run(runner.tier_from_args(args.tier), args.runs)
        if what == "C14":
            from pactisim import check_c14  # noqa: WPS433

            if args.replay:
                return check_c14.replay(args.replay)
            return check_c14.run(runner.tier_from_args(args.tier), args.runs, args.only)
        if what == "selftest":
            from pactisim import selftest  # noqa: WPS433

            return selftest.main(args.rest, args)
        runner.say("unknown command %r" % what)
        return env.EXIT_HARNESS
    except HarnessError as e:
        runner.say("HARNESS-ERROR: %s" % e)
        traceback.print_exc()
        return env.EXIT_HARNESS
    except Exception:  # noqa: WPS429
        runner.say("HARNESS-ERROR: internal exception")
        traceback.print_exc()
        return env.EXIT_HARNESS


if __name__ == "__main__":
    sys.exit(main(sys.argv[1:]))
