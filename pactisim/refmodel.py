"""Ten-line reference predicates over variable names and mention sets (C14-E1b).

They decide, without arithmetic, when a call has an *interface problem* (must raise exactly
IncompatibleArgsError) or an *unassigned variable* (must raise exactly ValueError).  Only the
direction "cause present => that class" is ever checked.
"""
from __future__ import annotations

from typing import Any, Dict, List, Optional


def _tl_mentions(tl: Dict) -> List[str]:
    out: List[str] = []
    for t in tl["TL"]:
        for k, _v in t["T"]:
            if k not in out:
                out.append(k)
    return out


def _iface(c: Dict):
    ins, outs, a, g = c["C"]
    return list(ins), list(outs), _tl_mentions(a), _tl_mentions(g)


def _names(lit: Any) -> Optional[List[str]]:
    """Names in a canonical list of strings or Vars."""
    if lit is None:
        return []
    if not isinstance(lit, dict) or "L" not in lit:
        return None
    out = []
    for x in lit["L"]:
        if isinstance(x, str):
            out.append(x)
        elif isinstance(x, dict) and "V" in x:
            out.append(x["V"])
        else:
            return None
    return out


def expected_class(op: str, args: Dict[str, Any]) -> Optional[str]:  # noqa: WPS231, WPS212
    """args: canonical forms of the call's arguments.  Returns the class the call MUST raise, or None."""
    if op in ("compose", "compose_tactics"):
        i1, o1, a1, _g1 = _iface(args["self"])
        i2, o2, a2, _g2 = _iface(args["other"])
        keep = _names(args.get("keep"))
        if keep is None:
            return None
        if set(o1) & set(o2):
            return "IncompatibleArgsError"
        if set(keep) - (set(o1) | set(o2)):
            return "IncompatibleArgsError"
        cycle = bool(set(i1) & set(o2)) and bool(set(i2) & set(o1))
        if cycle and (set(o2) & set(a1) or set(o1) & set(a2)):
            return "IncompatibleArgsError"
        return None
    if op in ("quotient", "quotient_tactics"):
        i1, o1, _a1, _g1 = _iface(args["self"])
        i2, o2, _a2, _g2 = _iface(args["other"])
        addl = _names(args.get("addl"))
        if addl is None:
            return None
        if (set(o1) - set(o2)) & set(i2):
            return "IncompatibleArgsError"
        if set(addl) - (set(o2) | set(i1)):
            return "IncompatibleArgsError"
        return None
    if op == "merge":
        i1, o1, _a, _g = _iface(args["self"])
        i2, o2, _a2, _g2 = _iface(args["other"])
        if (set(i1) | set(i2)) & (set(o1) | set(o2)):
            return "IncompatibleArgsError"
        return None
    if op in ("refines", "le"):
        i1, o1, _a, _g = _iface(args["self"])
        i2, o2, _a2, _g2 = _iface(args["other"])
        if set(i1) != set(i2) or set(o1) != set(o2):
            return "IncompatibleArgsError"
        return None
    if op == "rename_variable":
        i1, o1, _a, _g = _iface(args["self"])
        s, t = args["src"]["V"], args["tgt"]["V"]
        if s != t and ((s in i1 and t in o1) or (s in o1 and t in i1)):
            return "IncompatibleArgsError"
        return None
    if op == "construct":
        ins = _names(args["input_vars"])
        outs = _names(args["output_vars"])
        if ins is None or outs is None:
            return None
        am = _tl_mentions(args["assumptions"])
        gm = _tl_mentions(args["guarantees"])
        if len(ins) != len(set(ins)) or len(outs) != len(set(outs)):
            return "IncompatibleArgsError"
        if set(ins) & set(outs):
            return "IncompatibleArgsError"
        if set(am) - set(ins) or set(gm) - (set(ins) | set(outs)):
            return "IncompatibleArgsError"
        return None
    if op == "from_dict":
        d = args["d"]
        if not isinstance(d, dict) or "D" not in d:
            return None
        try:
            top = {k: v for k, v in d["D"]}
            ins = [x for x in top["input_vars"]["L"]]
            outs = [x for x in top["output_vars"]["L"]]
            if not all(isinstance(x, str) for x in ins + outs):
                return None

            def mentions(clauses):
                out = []
                for cl in clauses["L"]:
                    c = {k: v for k, v in cl["D"]}
                    for name, val in c["coefficients"]["D"]:
                        if float.fromhex(val[1]) != 0 and name not in out:  # the term constructor drops zero coefficients
                            out.append(name)
                return out

            am, gm = mentions(top["assumptions"]), mentions(top["guarantees"])
        except (KeyError, TypeError, ValueError, IndexError):
            return None
        if len(ins) != len(set(ins)) or len(outs) != len(set(outs)) or set(ins) & set(outs):
            return "IncompatibleArgsError"
        if set(am) - set(ins) or set(gm) - (set(ins) | set(outs)):
            return "IncompatibleArgsError"
        return None
    if op == "contains_behavior":
        mention = _tl_mentions(args["self"])
        beh = args["behavior"]
        if not isinstance(beh, dict) or "D" not in beh:
            return None
        keys = [k["V"] for k, _v in beh["D"] if isinstance(k, dict) and "V" in k]
        if set(mention) - set(keys):
            return "ValueError"
        return None
    return None
