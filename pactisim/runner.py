"""Process-pool runner, isolated execution, minimiser, evidence and known-findings plumbing."""
from __future__ import annotations

import faulthandler
import json
import multiprocessing
import os
import pickle
import select
import signal
import sys
import time
import traceback
from concurrent.futures import ProcessPoolExecutor
from typing import Any, Callable, Dict, Iterable, List, Optional, Tuple

from pactisim import env
from pactisim.env import HarnessError


def n_workers() -> int:
    raw = os.environ.get("PACTISIM_WORKERS")
    if raw:
        return max(1, int(raw))
    return max(1, min(16, os.cpu_count() or 1))


# ------------------------------------------------------------------------------ isolated calls
def run_isolated(fn: Callable[[Any], Any], arg: Any, timeout: float) -> Tuple[str, Any]:
    """Run fn(arg) in a forked child. Returns ("ok", value) | ("exc", text) | ("timeout", None) | ("died", status)."""
    rfd, wfd = os.pipe()
    pid = os.fork()
    if pid == 0:
        code = 0
        try:
            os.close(rfd)
            try:
                val = ("ok", fn(arg))
            except BaseException:  # noqa: WPS424
                val = ("exc", traceback.format_exc())
            data = pickle.dumps(val)
            with os.fdopen(wfd, "wb") as f:
                f.write(data)
        except BaseException:  # noqa: WPS424
            code = 3
        finally:
            os._exit(code)  # noqa: WPS437
    os.close(wfd)
    chunks = []
    deadline = time.monotonic() + timeout
    status = "ok"
    with os.fdopen(rfd, "rb") as f:
        while True:
            left = deadline - time.monotonic()
            if left <= 0:
                status = "timeout"
                break
            r, _w, _x = select.select([f], [], [], min(left, 1.0))
            if r:
                chunk = os.read(f.fileno(), 1 << 16)
                if not chunk:
                    break
                chunks.append(chunk)
    if status == "timeout":
        try:
            os.kill(pid, signal.SIGKILL)
        except ProcessLookupError:
            pass
        os.waitpid(pid, 0)
        return "timeout", None
    _pid, st = os.waitpid(pid, 0)
    data = b"".join(chunks)
    if not data:
        return "died", st
    try:
        kind, val = pickle.loads(data)
    except Exception:  # noqa: WPS429
        return "died", st
    return kind, val


# ------------------------------------------------------------------------------ pool
def _init_worker() -> None:
    faulthandler.enable()
    signal.signal(signal.SIGINT, signal.SIG_IGN)


def map_chunks(fn: Callable[[Any], Any], chunks: List[Any], workers: int, wall_cap: Optional[float] = None) -> Tuple[List[Any], bool]:
    """Apply fn to every chunk; results in chunk order.  Returns (results, truncated_by_wall_cap)."""
    if workers <= 1 or len(chunks) <= 1:
        out = []
        t0 = time.monotonic()
        for c in chunks:
            if wall_cap is not None and time.monotonic() - t0 > wall_cap:
                return out, True
            out.append(fn(c))
        return out, False
    ctx = multiprocessing.get_context("fork")
    results: List[Any] = [None] * len(chunks)
    truncated = False
    t0 = time.monotonic()
    with ProcessPoolExecutor(max_workers=workers, mp_context=ctx, initializer=_init_worker) as ex:
        futs = [ex.submit(fn, c) for c in chunks]
        for i, f in enumerate(futs):
            left = None
            if wall_cap is not None:
                left = max(1.0, wall_cap - (time.monotonic() - t0))
            try:
                results[i] = f.result(timeout=left)
            except TimeoutError:
                truncated = True
                for g in futs[i:]:
                    g.cancel()
                # kill stragglers; their chunks are discarded
                for p in list(ex._processes.values()):  # noqa: WPS437
                    try:
                        p.kill()
                    except Exception:  # noqa: WPS429
                        pass
                results = results[:i]
                break
    return results, truncated


def chunked(n: int, size: int) -> List[Tuple[int, int]]:
    return [(s, min(n, s + size)) for s in range(0, n, size)]


# ------------------------------------------------------------------------------ minimiser
def minimise(
    plan: Dict,
    target: Tuple,
    reproduces: Callable[[Dict], Optional[Tuple]],
    candidates: Callable[[Dict], Iterable[Dict]],
    budget_s: float = 120.0,
    max_execs: int = 4000,
) -> Tuple[Dict, Dict]:
    """Greedy delta-debugging: accept any simpler plan that still shows the same violation class."""
    t0 = time.monotonic()
    execs = 0
    accepted = 0
    improved = True
    while improved and time.monotonic() - t0 < budget_s and execs < max_execs:
        improved = False
        for cand in candidates(plan):
            if time.monotonic() - t0 > budget_s or execs >= max_execs:
                break
            execs += 1
            try:
                got = reproduces(cand)
            except HarnessError:
                continue
            if got == target:
                plan = cand
                accepted += 1
                improved = True
                break
    return plan, {"executions": execs, "accepted": accepted, "wall_s": round(time.monotonic() - t0, 2)}


# ------------------------------------------------------------------------------ known findings
def load_known() -> List[Dict]:
    if not os.path.exists(env.KNOWN_FINDINGS):
        return []
    with open(env.KNOWN_FINDINGS) as f:
        data = json.load(f)
    return list(data.get("findings", []))


def split_known(prop: str, violations: List[Dict]) -> Tuple[List[Dict], List[Dict]]:
    """(unlisted violations, re-observed open findings).  `fixed` entries suppress nothing."""
    known = [k for k in load_known() if k.get("property") == prop and k.get("status") == "open"]
    keys = {k["key"]: k for k in known}
    fresh, seen = [], {}
    for v in violations:
        k = v.get("key")
        if k in keys:
            seen[k] = keys[k]
        else:
            fresh.append(v)
    return fresh, [seen[k] for k in sorted(seen)]


# ------------------------------------------------------------------------------ evidence / replays
def selftest_summary(prop: str) -> Dict:
    """Latest recorded results of the (unregistered) self-tests, copied into the evidence for the reader."""
    path = os.path.join(env.VERIF_DIR, "selftest_results.json")
    if not os.path.exists(path):
        return {"note": "no self-test results recorded"}
    with open(path) as f:
        d = json.load(f)
    muts = {k: v for k, v in d.get("mutants", {}).items() if v.get("property") == prop}
    det = d.get("determinism", {}).get(prop)
    return {
        "source": "selftest_results.json (written by ./check selftest ...; not produced by this run)",
        "mutants_recorded": len(muts),
        "mutants_expected_caught_and_caught": sorted(k for k, v in muts.items() if v.get("expect") == "caught" and v.get("caught")),
        "mutants_expected_clean_and_clean": sorted(k for k, v in muts.items() if v.get("expect") == "clean" and not v.get("caught")),
        "mutants_not_as_expected": sorted(k for k, v in muts.items() if (v.get("expect") == "caught") != bool(v.get("caught"))),
        "determinism": None if det is None else {"runs": det.get("runs"), "configurations": len(det.get("configs", [])), "mismatches": det.get("mismatches")},
    }


def write_evidence(prop: str, doc: Dict) -> str:
    try:
        doc.setdefault("coverage", {})["selftests"] = selftest_summary(prop)
    except Exception as e:  # noqa: WPS429
        doc.setdefault("coverage", {})["selftests"] = {"error": repr(e)}
    os.makedirs(env.EVIDENCE_DIR, exist_ok=True)
    path = os.path.join(env.EVIDENCE_DIR, prop + ".json")
    tmp = path + ".tmp"
    with open(tmp, "w") as f:
        json.dump(doc, f, indent=1, sort_keys=True, default=repr)
        f.write("\n")
    os.replace(tmp, path)
    return path


def write_replay(prop: str, name: str, doc: Dict) -> str:
    os.makedirs(env.REPLAY_DIR, exist_ok=True)
    path = os.path.join(env.REPLAY_DIR, "%s-%s.json" % (prop, name))
    with open(path, "w") as f:
        json.dump(doc, f, indent=1, sort_keys=True)
        f.write("\n")
    return path


def merge_counts(dst: Dict[str, int], src: Dict[str, int]) -> None:
    for k, v in src.items():
        dst[k] = dst.get(k, 0) + v


def tier_from_args(arg: Optional[str]) -> str:
    t = arg or os.environ.get("VERIF_TIER") or "quick"
    if t not in ("quick", "thorough"):
        raise HarnessError("unknown tier %r" % t)
    return t


def say(msg: str) -> None:
    sys.stdout.write(msg + "\n")
    sys.stdout.flush()
