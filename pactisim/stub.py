"""Adversarial finite constraint domain behind pacti's abstract ``TermList`` seam (C05).

A *world* is a tuple of variable names, each ranging over ``{0..dom-1}``.  A behaviour is an
assignment to all of them, numbered in mixed radix; a set of behaviours is a Python int used as a
bitset.  A term is a predicate: ``support`` (the variables it *mentions*, syntactically) and
``sem`` (the set of behaviours satisfying it, which may ignore some mentioned variables, never
depends on an unmentioned one).  A term list is the conjunction of its terms.

Every primitive computes the set of answers its documented contract allows and lets the run's
adversary *tape* pick one.  Tape value 0 always means "exact, complete, no failure".  Each answer
is re-checked against the contract before it is handed to the algebra: an answer outside its
contract is a harness error, never a violation of the code under test.
"""
from __future__ import annotations

import random
from typing import Any, Dict, List, Optional, Tuple

from pacti.iocontract import Term, TermList, Var

from pactisim.env import HarnessError

DRAWS_PER_CALL = 4  # fixed number of tape entries consumed per primitive call (keeps shrinking stable)


class World:
    def __init__(self, names: List[str], dom: int):
        self.names = tuple(names)
        self.dom = dom
        self.n = len(names)
        self.index = {nm: i for i, nm in enumerate(self.names)}
        self.size = dom ** self.n
        self.full = (1 << self.size) - 1
        self.stride = [dom ** i for i in range(self.n)]
        # mask[i][k]: behaviours whose digit i equals k
        self.mask: List[List[int]] = []
        for i in range(self.n):
            s = self.stride[i]
            row = []
            for k in range(dom):
                m = 0
                for b in range(self.size):
                    if (b // s) % dom == k:
                        m |= 1 << b
                row.append(m)
            self.mask.append(row)

    # quantifiers over one variable -------------------------------------------------------
    def exists1(self, i: int, bits: int) -> int:
        s = self.stride[i]
        m = self.mask[i]
        u0 = 0
        for k in range(self.dom):
            u0 |= (bits & m[k]) >> (k * s)
        out = 0
        for k in range(self.dom):
            out |= u0 << (k * s)
        return out

    def forall1(self, i: int, bits: int) -> int:
        s = self.stride[i]
        m = self.mask[i]
        i0 = m[0]
        for k in range(self.dom):
            i0 &= (bits & m[k]) >> (k * s)
        out = 0
        for k in range(self.dom):
            out |= i0 << (k * s)
        return out

    def exists(self, idxs, bits: int) -> int:
        for i in idxs:
            bits = self.exists1(i, bits)
        return bits

    def forall(self, idxs, bits: int) -> int:
        for i in idxs:
            bits = self.forall1(i, bits)
        return bits

    def depends_on(self, bits: int) -> List[int]:
        return [i for i in range(self.n) if self.exists1(i, bits) != bits]

    def neg(self, bits: int) -> int:
        return self.full & ~bits

    def from_table(self, support: Tuple[str, ...], table: int) -> int:
        """Expand a truth table over `support` (entry j = mixed-radix digits of the support vars)."""
        idx = [self.index[s] for s in support]
        k = len(idx)
        out = 0
        for j in range(self.dom ** k):
            if (table >> j) & 1:
                m = self.full
                r = j
                for i in idx:
                    m &= self.mask[i][r % self.dom]
                    r //= self.dom
                out |= m
        return out

    def random_set(self, rng: random.Random, density: float, over: List[int]) -> int:
        """Random set of behaviours that depends only on the variables with indices in `over`."""
        k = len(over)
        table = 0
        for j in range(self.dom ** k):
            if rng.random() < density:
                table |= 1 << j
        return self.from_table(tuple(self.names[i] for i in over), table)

    def point(self, b: int) -> Dict[str, int]:
        return {nm: (b // self.stride[i]) % self.dom for i, nm in enumerate(self.names)}


class Tape:
    """The adversary's decisions, written out in the plan.  Exhausted tape = 0 = friendly."""

    def __init__(self, values: List[int]):
        self.values = list(values)
        self.pos = 0
        self.calls = 0

    def frame(self) -> Tuple[int, int, int, int]:
        base = self.calls * DRAWS_PER_CALL
        self.calls += 1
        out = []
        for k in range(DRAWS_PER_CALL):
            out.append(self.values[base + k] if base + k < len(self.values) else 0)
        return tuple(out)  # type: ignore


class Sim:
    """Per-program simulator state: world, tape, event log, counters."""

    def __init__(self, world: World, tape: Tape, lossy_str: bool = False):
        self.world = world
        self.tape = tape
        self.lossy_str = lossy_str
        self.log: List[Tuple] = []
        self.fired: Dict[str, int] = {}
        self.seq = 0

    def event(self, kind: str, *payload) -> None:
        self.seq += 1
        self.log.append((self.seq, kind) + payload)

    def fire(self, kind: str) -> None:
        self.fired[kind] = self.fired.get(kind, 0) + 1


SIM: Optional[Sim] = None  # the running program's simulator (single-threaded per process)


def set_sim(sim: Optional[Sim]) -> None:
    global SIM  # noqa: WPS420
    SIM = sim


def _sim() -> Sim:
    if SIM is None:
        raise HarnessError("stub primitive called outside a simulated program")
    return SIM


class StubTerm(Term):
    __slots__ = ("support", "sem")

    def __init__(self, support: Tuple[str, ...], sem: int):
        self.support = tuple(support)
        self.sem = sem

    @property
    def vars(self) -> List[Var]:  # noqa: A003
        return [Var(s) for s in self.support]

    def contains_var(self, var_to_seek: Var) -> bool:
        return var_to_seek.name in self.support

    def __eq__(self, other: object) -> bool:
        if not isinstance(other, StubTerm):
            return False
        return self.support == other.support and self.sem == other.sem

    def __hash__(self) -> int:
        return hash((self.support, self.sem))

    def __str__(self) -> str:
        # Printing is not a primitive with a contract: in "lossy" worlds different terms over the same variables print
        # identically (as polyhedral terms do beyond four significant digits); the algebra may not use str() as an identity.
        if SIM is not None and SIM.lossy_str:
            return "P[%s]" % ",".join(self.support)
        return "P[%s]%x" % (",".join(self.support), self.sem)

    def __repr__(self) -> str:
        return "<StubTerm P[%s]%x>" % (",".join(self.support), self.sem)

    def copy(self) -> "StubTerm":
        return StubTerm(self.support, self.sem)

    def __deepcopy__(self, memo) -> "StubTerm":
        return StubTerm(self.support, self.sem)

    def rename_variable(self, source_var: Var, target_var: Var) -> "StubTerm":
        raise HarnessError("rename is not part of the C05 workload")


def sem_of(terms: List[StubTerm], world: World) -> int:
    out = world.full
    for t in terms:
        out &= t.sem
    return out


def _terms_for(world: World, bits: int, allowed: List[int], rng: random.Random, split: int, extra: int) -> List[StubTerm]:
    """Write the set `bits` (which depends only on `allowed`) as a conjunction of 1..3 terms."""
    dep = world.depends_on(bits)
    for i in dep:
        if i not in allowed:
            raise HarnessError("answer depends on a variable outside the allowed set")
    parts = [bits]
    nsplit = split % 3
    for _ in range(nsplit):
        r = world.random_set(rng, 0.5, allowed)
        last = parts.pop()
        parts.append(last | r)
        parts.append(last | world.neg(r))
    out = []
    for k, p in enumerate(parts):
        d = world.depends_on(p)
        sup = list(d)
        if extra and k == 0:
            cands = [i for i in allowed if i not in sup]
            if cands:
                sup.append(cands[extra % len(cands)])
                _sim().fire("answer:syntactic_only_mention")
        sup.sort()
        out.append(StubTerm(tuple(world.names[i] for i in sup), p))
    # drop tautologies without support unless it is all we have
    kept = [t for t in out if not (t.sem == world.full and not t.support)]
    return kept


class StubTermList(TermList):
    def __init__(self, term_list: Optional[List] = None):
        if term_list:
            for t in term_list:
                if not isinstance(t, StubTerm):
                    raise HarnessError("StubTermList got a %s" % type(t))
            self.terms = list(term_list)
        else:
            self.terms = []

    def __hash__(self) -> int:
        return hash(tuple(self.terms))

    def __str__(self) -> str:
        return "[" + "; ".join(str(t) for t in self.terms) + "]"

    def __deepcopy__(self, memo) -> "StubTermList":
        return StubTermList([t.copy() for t in self.terms])

    # ------------------------------------------------------------------ exact queries
    def sem(self) -> int:
        return sem_of(self.terms, _sim().world)

    def contains_behavior(self, behavior: Any) -> bool:
        w = _sim().world
        b = sum(int(behavior[Var(nm)]) * w.stride[i] for i, nm in enumerate(w.names))
        return bool((self.sem() >> b) & 1)

    def is_empty(self) -> bool:
        _sim().event("is_empty")
        return self.sem() == 0

    # ------------------------------------------------------------------ adversarial primitives
    def refines(self, other: "StubTermList") -> bool:
        sim = _sim()
        mode, _a, _b, _c = sim.tape.frame()
        truth = (self.sem() & sim.world.neg(other.sem())) == 0
        ans = truth
        if truth and mode % 4 == 1:
            ans = False
            sim.fire("refines:spurious_false")
        elif truth:
            sim.fire("refines:true")
        else:
            sim.fire("refines:false")
        sim.event("refines", truth, ans)
        return ans

    def simplify(self, context: Optional["StubTermList"] = None) -> "StubTermList":
        sim = _sim()
        w = sim.world
        mode, a, _b, _c = sim.tape.frame()
        ctx_terms = list(context.terms) if context is not None else []
        c_sem = sem_of(ctx_terms, w)
        s_sem = self.sem()
        target = c_sem & s_sem
        m = mode % 8
        if target == 0 and m in (0, 1, 2, 5):
            sim.fire("simplify:ValueError_infeasible")
            sim.event("simplify", "ValueError", "infeasible")
            raise ValueError("stub: constraints unsatisfiable in context")
        if m == 7:
            sim.fire("simplify:ValueError_spurious")
            sim.event("simplify", "ValueError", "spurious")
            raise ValueError("stub: simplify gave up")
        kept = [t.copy() for t in self.terms]
        if m in (0, 1, 3, 4, 5):
            # syntactic removal of context terms first (what the shipped domain does), then greedy
            order = list(range(len(kept)))
            rng = random.Random(a)
            if m in (1, 4):
                rng.shuffle(order)
            skip = set()
            if m in (4, 5) and order:
                skip.add(order[rng.randrange(len(order))])  # deliberately not maximal
            alive = [True] * len(kept)
            for i in order:
                if i in skip:
                    continue
                alive[i] = False
                if (c_sem & sem_of([t for j, t in enumerate(kept) if alive[j]], w)) != target:
                    alive[i] = True
            res = [t for j, t in enumerate(kept) if alive[j]]
            sim.fire("simplify:greedy" if m in (0, 3) else ("simplify:shuffled" if m == 1 else "simplify:non_maximal"))
        else:
            res = kept
            sim.fire("simplify:noop")
        if (c_sem & sem_of(res, w)) != target:
            raise HarnessError("stub simplify broke its own contract")
        sim.event("simplify", len(self.terms), len(res))
        return StubTermList(res)

    def elim_vars_by_refining(self, context, vars_to_elim, simplify=True, tactics_order=None):
        return self._elim(context, vars_to_elim, True)

    def elim_vars_by_relaxing(self, context, vars_to_elim, simplify=True, tactics_order=None):
        return self._elim(context, vars_to_elim, False)

    def _elim(self, context: "StubTermList", vars_to_elim: List[Var], refine: bool):
        sim = _sim()
        w = sim.world
        name = "refine" if refine else "relax"
        mode, a, b, c = sim.tape.frame()
        rng = random.Random((a << 20) ^ (b << 10) ^ c)
        e_names = []
        for v in vars_to_elim:
            if not isinstance(v, Var):
                raise HarnessError("vars_to_elim must be Vars, got %r" % (v,))
            if v.name in w.index and v.name not in e_names:
                e_names.append(v.name)
        e_idx = [w.index[nm] for nm in e_names]
        c_sem = sem_of(context.terms, w)
        s_sem = self.sem()
        mention = set()
        for t in list(self.terms) + list(context.terms):
            mention.update(t.support)
        allowed = sorted(w.index[nm] for nm in mention if nm not in e_names)
        m = mode % 8
        if m == 4:
            sim.fire(name + ":ValueError")
            sim.event(name, "ValueError")
            raise ValueError("stub: elimination failed")
        with_e = [t for t in self.terms if any(s in e_names for s in t.support)]
        without_e = [t for t in self.terms if not any(s in e_names for s in t.support)]
        leftovers: List[StubTerm] = []
        todo = list(self.terms)
        if m in (3, 6) and with_e:
            # some (m == 3: all, m == 6: a tape-chosen subset) of the offending terms come back untouched
            if m == 3:
                leftovers = [t.copy() for t in with_e]
            else:
                leftovers = [t.copy() for k, t in enumerate(with_e) if (a >> k) & 1] or [with_e[0].copy()]
            todo = [t for t in self.terms if t not in leftovers]
            sim.fire(name + ":leftovers")
        t_sem = sem_of(todo, w)
        if refine:
            exact = w.forall(e_idx, w.neg(c_sem) | t_sem)
            # the exact answer may depend on context-only variables; that is allowed
            if m == 1 or m == 5:
                ans = exact & w.random_set(rng, 0.8, allowed)
                sim.fire(name + ":strengthened")
            elif m == 2:
                ans = 0
                sim.fire(name + ":false")
            else:
                ans = exact
                if not leftovers:
                    sim.fire(name + ":exact")
        else:
            exact = w.exists(e_idx, c_sem & t_sem)
            if m == 1 or m == 5:
                ans = exact | w.neg(w.random_set(rng, 0.8, allowed))
                sim.fire(name + ":weakened")
            elif m == 2:
                ans = w.full
                sim.fire(name + ":true")
            else:
                ans = exact
                if not leftovers:
                    sim.fire(name + ":exact")
        # restrict dependence to the allowed variables (exact answers already do)
        dep = w.depends_on(ans)
        bad = [i for i in dep if i not in allowed]
        if bad:
            # can only happen through the context's own non-mentioned dependence; project soundly
            ans = w.forall(bad, ans) if refine else w.exists(bad, ans)
        terms = _terms_for(w, ans, allowed, rng, split=(b if m in (1, 5, 0) else 0), extra=(c % 3 == 1) and (c // 3 + 1) or 0)
        result = terms + leftovers
        r_sem = sem_of(result, w)
        if refine:
            if (c_sem & r_sem) & w.neg(s_sem):
                raise HarnessError("stub refine broke its own contract")
        else:
            if (c_sem & s_sem) & w.neg(r_sem):
                raise HarnessError("stub relax broke its own contract")
        if any(s in e_names for t in result for s in t.support):
            sim.fire(name + ":returned_with_forbidden_vars")
        sim.event(name, tuple(e_names), len(self.terms), len(context.terms), m, len(result))
        _ = without_e
        return StubTermList(result), [(0, 0.0, 0)]
