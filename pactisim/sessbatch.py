"""Batch of simulated sessions on the process pool; aggregation in run-index order; violation post-processing."""
from __future__ import annotations

import json
import os
import subprocess
import time
from typing import Any, Dict, List, Optional, Tuple

from pactisim import env, runner, sessrun
from pactisim.env import HarnessError


def _work(job: Tuple) -> Dict:
    start, end, base, prop, profile, oracles = job
    agg: Dict[str, Any] = {"runs": 0, "stats": {}, "counts": {}, "violations": [], "n_violating": 0, "discarded_timeout": 0, "discarded_died": 0,
                           "harness": [], "sim_time_s": 0.0, "nontrivial": 0, "pool_digests": [], "log_digests": [], "triples": set(), "samples": []}
    for i in range(start, end):
        seed = env.run_seed(base, prop, i)
        plan = sessrun.make_header(seed, prop, profile)
        st, res = sessrun.run_plan(plan, oracles, True, keep_plan=(i < 2))
        agg["runs"] += 1
        if st == "timeout":
            agg["discarded_timeout"] += 1
            continue
        if st in ("died",):
            agg["discarded_died"] += 1
            continue
        if st == "exc":
            agg["harness"].append({"run": i, "trace": res[-3000:]})
            continue
        runner.merge_counts(agg["stats"], res["stats"])
        runner.merge_counts(agg["counts"], res["counts"])
        agg["sim_time_s"] += res["sim_time_s"]
        agg["log_digests"].append(res["log_digest"])
        if res["nontrivial"]:
            agg["nontrivial"] += 1
            agg["pool_digests"].append(res["pool_digest"][:16])
        agg["triples"].update(res["triples"])
        vs = [v for v in res["violations"] if v["property"] == prop]
        if vs:
            agg["n_violating"] += 1
            if len(agg["violations"]) < 6:
                agg["violations"].append({"run": i, "plan": res["plan"], "violations": vs})
        if i < 2 and res.get("plan") is not None:
            agg["samples"].append({"run": i, "seed": seed, "plan": _compact_plan(res["plan"]), "outcomes": res["outcomes"]})
    agg["triples"] = sorted(agg["triples"])
    sessrun.close_zygote()
    return agg


def _compact_plan(plan: Dict) -> Dict:
    p = dict(plan)
    p.pop("ops", None)
    p.pop("weights", None)
    return p


def run_batch(prop: str, n: int, base: int, profile: Dict, oracles: List[str], chunk: int, wall_cap: float) -> Dict:
    workers = runner.n_workers()
    jobs = [(s, e, base, prop, profile, oracles) for s, e in runner.chunked(n, chunk)]
    t0 = time.monotonic()
    parts, truncated = runner.map_chunks(_work, jobs, workers, wall_cap)
    tot: Dict[str, Any] = {"runs": 0, "stats": {}, "counts": {}, "violations": [], "n_violating": 0, "discarded_timeout": 0, "discarded_died": 0,
                           "harness": [], "sim_time_s": 0.0, "nontrivial": 0, "samples": [], "truncated": truncated, "workers": workers}
    pools, triples, logs = set(), set(), []
    for p in parts:
        for k in ("runs", "n_violating", "discarded_timeout", "discarded_died", "nontrivial"):
            tot[k] += p[k]
        tot["sim_time_s"] += p["sim_time_s"]
        runner.merge_counts(tot["stats"], p["stats"])
        runner.merge_counts(tot["counts"], p["counts"])
        tot["violations"].extend(p["violations"])
        tot["harness"].extend(p["harness"])
        tot["samples"].extend(p["samples"])
        pools.update(p["pool_digests"])
        triples.update(p["triples"])
        logs.extend(p["log_digests"])
    tot["distinct_pool_states"] = len(pools)
    tot["distinct_op_trigrams"] = len(triples)
    tot["batch_digest"] = env.digest(logs)
    tot["wall_search_s"] = time.monotonic() - t0
    return tot


def process_violations(prop: str, base: int, tot: Dict, oracles: List[str], budget_s: float = 150.0) -> Tuple[int, List[Dict], List[Dict]]:
    """Minimise, write replay files, verify in a fresh interpreter, split off known findings.
    Returns (exit code, reported, known-findings seen)."""
    flat = []
    for entry in tot["violations"]:
        for v in entry["violations"]:
            flat.append({"run": entry["run"], "plan": entry["plan"], "v": v, "key": v["key"]})
    fresh, known_seen = runner.split_known(prop, flat)
    for k in known_seen:
        runner.say("KNOWN-FINDING: property=%s %s" % (prop, k["key"]))
    reported = []
    seen_cls = set()
    code = env.EXIT_OK
    for item in fresh:
        cls = sessrun.violation_class(item["v"])
        if cls in seen_cls or len(seen_cls) >= 4:
            continue
        seen_cls.add(cls)
        rep = sessrun.reproduces_any(oracles, prop, cls)
        plan = item["plan"]
        if rep(plan) != cls:
            runner.say("HARNESS-ERROR: violation %s of run %d does not reproduce from its recorded plan" % (cls, item["run"]))
            return env.EXIT_HARNESS, reported, known_seen
        small, mstats = runner.minimise(plan, cls, rep, sessrun.candidates, budget_s=budget_s, max_execs=600)
        doc = {"property": prop, "violation": item["v"], "class": list(cls), "base_seed": base, "run_index": item["run"], "seed": plan["seed"],
               "plan": small, "original_steps": len(plan["steps"]), "minimised_steps": len(small["steps"]), "minimiser": mstats, "oracles": oracles}
        path = runner.write_replay(prop, "%d-%d-%s-%d" % (base, item["run"], item["v"]["oracle"], len(reported)), doc)
        cp = subprocess.run([os.path.join(env.VERIF_DIR, "check"), prop, "--replay", path], capture_output=True, text=True, timeout=900)
        if "VIOLATION property=%s" % prop not in cp.stdout:
            runner.say("HARNESS-ERROR: minimised plan does not reproduce in a fresh interpreter: %s" % path)
            runner.say(cp.stdout[-2000:] + cp.stderr[-2000:])
            return env.EXIT_HARNESS, reported, known_seen
        reported.append({"class": [str(c) for c in cls], "replay": path, "steps": len(small["steps"]), "minimiser": mstats})
        runner.say("VIOLATION property=%s replay=%s" % (prop, path))
        runner.say("  %s  (%d -> %d steps)" % (item["v"]["key"], len(plan["steps"]), len(small["steps"])))
        code = env.EXIT_VIOLATION
    sessrun.close_zygote()
    return code, reported, known_seen


def replay_file(prop: str, path: str) -> int:
    with open(path) as f:
        doc = json.load(f)
    oracles = doc.get("oracles")
    st, res = sessrun.run_plan(doc["plan"], oracles, True, False, timeout=600)
    sessrun.close_zygote()
    if st != "ok":
        runner.say("HARNESS-ERROR: replay did not complete: %s %s" % (st, str(res)[-2000:]))
        return env.EXIT_HARNESS
    target = tuple(doc["class"])
    vs = [v for v in res["violations"] if v["property"] == prop]
    hit = [v for v in vs if tuple(sessrun.violation_class(v)) == target]
    known_open = {k["key"] for k in runner.load_known() if k.get("property") == prop and k.get("status") == "open"}
    for v in vs:
        runner.say("replay: %s %s step %d: %s" % (v["oracle"], v["op"], v["step"], str(v["detail"])[:400]))
    runner.say("replay: log digest %s" % res["log_digest"][:16])
    if hit or vs:
        if all(v["key"] in known_open for v in vs):
            for v in vs:
                runner.say("KNOWN-FINDING: property=%s %s" % (prop, v["key"]))
            return env.EXIT_OK
        runner.say("VIOLATION property=%s replay=%s" % (prop, path))
        return env.EXIT_VIOLATION
    runner.say("replay: no violation")
    return env.EXIT_OK
