"""Driver for simulated sessions: plan headers, online step generation, isolation, minimisation candidates."""
from __future__ import annotations

import copy
import os
import time
from typing import Any, Callable, Dict, List, Optional, Tuple

from pactisim import env, runner
from pactisim.env import HarnessError

SESSION_TIMEOUT = 240.0

_ZYG = None  # per-process zygote, created lazily while the process is still pristine


def zygote():
    global _ZYG  # noqa: WPS420
    from pactisim import session  # noqa: WPS433

    if _ZYG is None or _ZYG[0] != os.getpid():
        _ZYG = (os.getpid(), session.Zygote())
    return _ZYG[1]


def close_zygote() -> None:
    global _ZYG  # noqa: WPS420
    if _ZYG is not None and _ZYG[0] == os.getpid():
        _ZYG[1].close()
    _ZYG = None


# ------------------------------------------------------------------------------ plan header + online generator
def make_header(seed: int, prop: str, profile: Dict) -> Dict:
    from pactisim import ops  # noqa: WPS433

    rs = env.stream(seed, "plan")
    style = ops.draw_style(env.stream(seed, "style"))
    ops.set_style(style)
    pool = ops.gen_initial_pool(rs)
    n_steps = rs.choice(profile.get("lengths", [8, 12, 20, 30]))
    ck = env.stream(seed, "clock")
    clock = []
    for _ in range(24):
        r = ck.random()
        if r < 0.8:
            clock.append(round(ck.uniform(1e-6, 5e-3), 9))
        elif r < 0.9:
            clock.append(-round(ck.uniform(0.0, 2.0), 6))  # backward jump
        else:
            clock.append(float(ck.choice([60, 3600, 86400])))
    fs = env.stream(seed, "faults")
    swarm = {
        "import_plots_at": fs.randrange(n_steps) if fs.random() < profile.get("p_plots", 0.35) else None,
        "logging_at": fs.randrange(n_steps) if fs.random() < profile.get("p_logging", 0.35) else None,
        "logging_off_at": None,
        "solver_fault_rate": fs.choice(profile.get("solver_fault_rates", [0.0, 0.0, 0.05, 0.15])),
        "fs_fault_rate": fs.choice(profile.get("fs_fault_rates", [0.0, 0.3])),
    }
    swarm["e4_sweep"] = bool(profile.get("e4_sweep"))
    if swarm["logging_at"] is not None and fs.random() < 0.3:
        swarm["logging_off_at"] = min(n_steps - 1, swarm["logging_at"] + fs.randrange(1, 6))
    all_ops = list(profile["ops"])
    weights = dict(profile.get("weights", {}))
    # swarm testing: each run emphasises a random subset of the operation families
    for o in all_ops:
        r = rs.random()
        if r < 0.25:
            weights[o] = weights.get(o, 1.0) * 0.1
        elif r > 0.85:
            weights[o] = weights.get(o, 1.0) * 3.0
    return {"prop": prop, "seed": seed, "style": style, "pool": pool, "n_steps": n_steps, "steps": None, "clock": clock, "swarm": swarm,
            "ops": all_ops, "weights": weights}


def online_gen(seed: int) -> Callable:
    from pactisim import ops  # noqa: WPS433

    rs = env.stream(seed, "steps")
    fs = env.stream(seed, "stepfaults")

    def gen(sess, i: int) -> Dict:
        plan = sess.plan
        ops.set_style(plan.get("style"))
        view = ops.View(sess.snap, sess.seams.fs.files, sess.recent)
        step = None
        last = plan["steps"][-1] if plan.get("steps") else None
        if last is not None and "repeat_of" not in last and "twin_of" not in last and rs.random() < 0.7:
            # the same call once more with one operand replaced by its near twin (a contract / list whose numbers agree with
            # it to the digits that get printed): results must follow the numbers, not the printed form
            import copy as _copy  # noqa: WPS433

            for an, a in last["args"].items():
                if "slot" in a:
                    twins = [sl for sl in sorted(sess.snap) if sl != a["slot"] and sl[0] == a["slot"][0] and ops.near_twins(sess.snap[a["slot"]], sess.snap[sl])]
                    if twins:
                        step = _copy.deepcopy(last)
                        step["args"][an] = {"slot": rs.choice(twins)}
                        step["dst"] = None
                        step["twin_of"] = len(plan["steps"]) - 1
                        for key in ("env", "solver_fault", "write_fault"):
                            step.pop(key, None)
                        return step
        if sess.history and rs.random() < 0.2:
            # repeat an EARLIER call of this session verbatim, if its operands are canonically what they were then
            # (older calls preferred: more happens in between)
            cands = []
            for k, h in enumerate(sess.history):
                same = True
                for an, a in h["step"]["args"].items():
                    if "slot" in a and sess.snap[a["slot"]] != h["can"][an]:
                        same = False
                    elif "clone" in a and sess.snap[a["clone"]] != h["can"][an]:
                        same = False
                    elif "slots" in a and {"L": [sess.snap[x] for x in a["slots"]]} != h["can"][an]:
                        same = False
                if same:
                    cands.append(k)
            if cands:
                k = cands[int(len(cands) * rs.random() ** 2)]
                import copy as _copy  # noqa: WPS433

                step = _copy.deepcopy(sess.history[k]["step"])
                step["dst"] = None
                step["repeat_of"] = k
                for key in ("env", "solver_fault", "write_fault"):
                    step.pop(key, None)
                return step
        step = ops.gen_step(rs, view, plan["ops"], plan["weights"])
        sw = plan["swarm"]
        evs = []
        if sw["import_plots_at"] == i:
            evs.append("import_plots")
        if sw["logging_at"] == i:
            evs.append("logging_debug")
        if sw["logging_off_at"] == i:
            evs.append("logging_off")
        if evs:
            step["env"] = evs
        r1, r2, r3, r4 = fs.random(), fs.random(), fs.random(), fs.random()
        if sw.get("e4_sweep"):
            # systematic give-up sweep: every step gets a fault at a uniformly chosen LP call index
            step["solver_fault"] = {"at": fs.choice([0, 0, 1, 1, 2, 3, 4, 6, 9]), "kind": fs.choice(["iter", "time", "numerical"])}
        elif r1 < sw["solver_fault_rate"]:
            k = 0
            while r2 < 0.55 and k < 12:  # geometric call index
                k += 1
                r2 = fs.random()
            step["solver_fault"] = {"at": k, "kind": fs.choice(["iter", "time", "numerical"])}
        if step["op"] == "write_file" and r3 < sw["fs_fault_rate"]:
            step["write_fault"] = {"kind": "enospc" if r4 < 0.5 else "torn", "after": fs.choice([0, 1, 7, 40, 200, 1000])}
        return step

    return gen


# ------------------------------------------------------------------------------ isolated execution
def _child(arg: Tuple[Dict, List[str], bool, bool]) -> Dict:
    plan, oracles, use_zygote, keep_plan = arg
    from pactisim import session  # noqa: WPS433

    z = zygote() if use_zygote else None
    gen = online_gen(plan["seed"]) if plan.get("steps") is None else None
    s = session.Session(plan, z, oracles, gen)
    res = s.run()
    if not keep_plan and not res["violations"]:
        res = dict(res)
        res["plan"] = None
    return res


def run_plan(plan: Dict, oracles: List[str], use_zygote: bool = True, keep_plan: bool = True, timeout: float = SESSION_TIMEOUT) -> Tuple[str, Any]:
    """Run one session in a child forked from this (pristine) process."""
    if use_zygote:
        zygote()  # make sure it exists before the fork so that the child inherits its pipes
    return runner.run_isolated(_child, (plan, oracles, use_zygote, keep_plan), timeout)


def violation_class(v: Dict) -> Tuple:
    if v["oracle"] in ("E1", "E4"):
        return (v["property"], v["oracle"], "*", v.get("key"))
    return (v["property"], v["oracle"], v["op"], v.get("key"))


def reproducer(oracles: List[str], prop: str) -> Callable[[Dict], Optional[Tuple]]:
    def reproduces(plan: Dict) -> Optional[Tuple]:
        p = copy.deepcopy(plan)
        st, res = run_plan(p, oracles, True, False, timeout=120.0)
        if st != "ok":
            return None
        for v in res["violations"]:
            if v["property"] == prop:
                return violation_class(v)
        return None

    return reproduces


def reproduces_any(oracles: List[str], prop: str, target: Tuple) -> Callable[[Dict], Optional[Tuple]]:
    """Like reproducer, but succeeds if ANY violation of the session has the target class."""

    def reproduces(plan: Dict) -> Optional[Tuple]:
        p = copy.deepcopy(plan)
        st, res = run_plan(p, oracles, True, False, timeout=120.0)
        if st != "ok":
            return None
        for v in res["violations"]:
            if violation_class(v) == target:
                return target
        return None

    return reproduces


# ------------------------------------------------------------------------------ minimisation candidates
def candidates(plan: Dict):
    steps = plan["steps"]
    n = len(steps)

    def with_steps(new_steps):
        p = dict(plan)
        p["steps"] = new_steps
        return p

    # cut the tail after the (unknown) failing step: try halves from the end
    k = n // 2
    while k >= 1:
        if n - k >= 1:
            yield with_steps(steps[: n - k])
        k //= 2
    # drop chunks, then single steps
    size = max(1, n // 4)
    while size >= 1:
        for s in range(0, n, size):
            if len(steps) - len(steps[s:s + size]) >= 1:
                yield with_steps(steps[:s] + steps[s + size:])
        if size == 1:
            break
        size //= 2
    # drop environment events and faults
    for i, st in enumerate(steps):
        for key in ("env", "solver_fault", "write_fault"):
            if key in st:
                ns = dict(st)
                ns.pop(key)
                yield with_steps(steps[:i] + [ns] + steps[i + 1:])
    # friendlier arguments
    for i, st in enumerate(steps):
        for key, val in st["args"].items():
            if key == "simplify" and val.get("lit") == ["bool", True]:
                ns = copy.deepcopy(st)
                ns["args"][key] = {"lit": ["bool", False]}
                yield with_steps(steps[:i] + [ns] + steps[i + 1:])
            if key == "tactics_order" and val.get("lit") is not None:
                ns = copy.deepcopy(st)
                ns["args"][key] = {"lit": None}
                yield with_steps(steps[:i] + [ns] + steps[i + 1:])
            if key in ("keep", "addl", "vars", "mappings") and isinstance(val.get("lit"), dict) and val["lit"].get("L"):
                for j in range(len(val["lit"]["L"])):
                    ns = copy.deepcopy(st)
                    del ns["args"][key]["lit"]["L"][j]
                    yield with_steps(steps[:i] + [ns] + steps[i + 1:])
    # pool: fewer terms
    for slot in sorted(plan["pool"]):
        c = plan["pool"][slot]
        if "C" in c:
            for which in (2, 3):
                tl = c["C"][which]["TL"]
                for j in range(len(tl)):
                    nc = copy.deepcopy(c)
                    del nc["C"][which]["TL"][j]
                    p = dict(plan)
                    p["pool"] = dict(plan["pool"])
                    p["pool"][slot] = nc
                    yield p
        elif "TL" in c:
            for j in range(len(c["TL"])):
                nc = copy.deepcopy(c)
                del nc["TL"][j]
                p = dict(plan)
                p["pool"] = dict(plan["pool"])
                p["pool"][slot] = nc
                yield p
    # clock: constant
    if plan.get("clock") and plan["clock"] != [0.001]:
        p = dict(plan)
        p["clock"] = [0.001]
        yield p
