"""Environment: which pacti is under test, seed derivation, paths.

Every check imports pacti from the *working tree* (``/repo/src`` or ``$PACTI_SRC``), never from
site-packages (the venv carries a different pacti release).  Importing from anywhere else is a
harness error (exit 2), not a verdict.
"""
from __future__ import annotations

import hashlib
import os
import random
import sys

VERIF_DIR = os.path.dirname(os.path.dirname(os.path.abspath(__file__)))
PACTI_SRC = os.path.abspath(os.environ.get("PACTI_SRC", "/repo/src"))
EVIDENCE_DIR = os.environ.get("PACTISIM_EVIDENCE_DIR") or os.path.join(VERIF_DIR, "evidence")
REPLAY_DIR = os.environ.get("PACTISIM_REPLAY_DIR") or os.path.join(VERIF_DIR, "replays")
KNOWN_FINDINGS = os.path.join(VERIF_DIR, "known_findings.json")

EXIT_OK = 0
EXIT_VIOLATION = 1
EXIT_HARNESS = 2


class HarnessError(Exception):
    """Something is wrong with the machinery itself; never reported as a violation."""


def install_pacti_path() -> None:
    if sys.path[0] != PACTI_SRC:
        sys.path.insert(0, PACTI_SRC)
    # drop any previously imported pacti that came from elsewhere
    mod = sys.modules.get("pacti")
    if mod is not None and not os.path.abspath(getattr(mod, "__file__", "")).startswith(PACTI_SRC + os.sep):
        raise HarnessError("pacti already imported from %s" % getattr(mod, "__file__", "?"))


def assert_pacti_from_tree() -> str:
    import pacti  # noqa: WPS433

    f = os.path.abspath(pacti.__file__)
    if not f.startswith(PACTI_SRC + os.sep):
        raise HarnessError("pacti imported from %s, expected under %s" % (f, PACTI_SRC))
    return f


def base_seed() -> int:
    raw = os.environ.get("VERIF_SEED", "0")
    try:
        return int(raw)
    except ValueError:
        return int.from_bytes(hashlib.sha256(raw.encode()).digest()[:6], "big")


def run_seed(base: int, prop: str, run_index: int) -> int:
    """The one integer that decides everything in run `run_index` of property `prop`."""
    h = hashlib.sha256(("%d:%s:%d" % (base, prop, run_index)).encode()).digest()
    return int.from_bytes(h[:8], "big")


def stream(seed: int, name: str) -> random.Random:
    """Named PRNG sub-stream; adding draws to one stream never shifts another."""
    h = hashlib.sha256(("%d/%s" % (seed, name)).encode()).digest()
    return random.Random(int.from_bytes(h[:16], "big"))


def digest(obj) -> str:
    """Stable digest of a JSON-like object (no hash(), no set order)."""
    import json

    return hashlib.sha256(json.dumps(obj, sort_keys=True, separators=(",", ":"), default=repr).encode()).hexdigest()
