"""C05 engine: the real algebra layer (pacti/iocontract/iocontract.py) against the adversarial stub domain.

plan  = explicit JSON: world, pool (contracts as truth tables), operation list, adversary tape.
run   = execute(plan): draws nothing; every primitive outcome comes from the tape.
oracle= exact, by enumeration of all behaviours of the world (bitset algebra).
"""
from __future__ import annotations

import sys
from typing import Any, Dict, List, Optional, Tuple

from pactisim import env
from pactisim.env import HarnessError

PROP = "C05"
_WORLDS: Dict[Tuple[int, int], Any] = {}


def _world(n: int, dom: int):
    from pactisim.stub import World

    key = (n, dom)
    if key not in _WORLDS:
        _WORLDS[key] = World(["v%d" % i for i in range(n)], dom)
    return _WORLDS[key]


# ------------------------------------------------------------------------------ generation
def _gen_terms(rs, names: List[str], dom: int, count: int, must: Optional[List[str]] = None) -> List[List]:
    out = []
    if not names:
        return out
    for _ in range(count):
        k = rs.choice([1, 1, 2, 2, 3, 3, 4])
        k = min(k, len(names))
        sup = rs.sample(names, k)
        if must and rs.random() < 0.7 and not any(s in must for s in sup):
            sup[0] = rs.choice(must)
        sup = sorted(set(sup), key=lambda s: int(s[1:]))
        size = dom ** len(sup)
        dens = rs.choice([0.5, 0.7, 0.85, 0.95])
        table = 0
        for j in range(size):
            if rs.random() < dens:
                table |= 1 << j
        if table == 0:
            table = 1 << rs.randrange(size)
        out.append([sup, table])
    return out


def _gen_contract(rs, names: List[str], dom: int, avoid_out: Optional[set] = None, prefer_in: Optional[set] = None) -> Dict:
    ins, outs = [], []
    for nm in names:
        r = rs.random()
        if avoid_out and nm in avoid_out:
            # the partner produces nm: read it or ignore it (rarely clash on purpose)
            if r < 0.6:
                ins.append(nm)
            elif r < 0.65:
                outs.append(nm)
        elif prefer_in and nm in prefer_in:
            if r < 0.45:
                outs.append(nm)
            elif r < 0.75:
                ins.append(nm)
        else:
            if r < 0.35:
                ins.append(nm)
            elif r < 0.65:
                outs.append(nm)
    if not ins and not outs:
        outs.append(rs.choice(names))
    rs.shuffle(ins)
    rs.shuffle(outs)
    a = _gen_terms(rs, ins, dom, rs.choice([0, 1, 1, 2, 3, 4]))
    g = _gen_terms(rs, ins + outs, dom, rs.choice([0, 1, 1, 2, 2, 3, 4]), must=outs)
    return {"in": ins, "out": outs, "a": a, "g": g, "simplify": rs.random() < 0.25}


def _union(a, b):
    return a + [x for x in b if x not in a]


def _inter(a, b):
    return [x for x in a if x in b]


def _diff(a, b):
    return [x for x in a if x not in b]


def _predict(kind: str, l: Optional[Dict], r: Optional[Dict], extra: List[str]) -> Optional[Dict]:
    """Interface the algebra prescribes (None when the request has no meaning).  Used only to steer
    generation towards calls that reach the algebra; never used as an oracle."""
    if l is None or r is None:
        return None
    if kind == "compose":
        if _inter(l["out"], r["out"]):
            return None
        if _diff(extra, _union(l["out"], r["out"])):
            return None
        intv = _union(_inter(l["out"], r["in"]), _inter(l["in"], r["out"]))
        ins = _diff(_union(l["in"], r["in"]), intv)
        outs = _union(_diff(_union(l["out"], r["out"]), intv), extra)
        return {"in": ins, "out": outs}
    if kind == "quotient":
        if _inter(_diff(l["out"], r["out"]), r["in"]):
            return None
        if _diff(extra, _union(r["out"], l["in"])):
            return None
        outs = _union(_diff(l["out"], r["out"]), _diff(r["in"], l["in"]))
        ins = _union(_union(_diff(l["in"], r["in"]), _diff(r["out"], l["out"])), extra)
        if _inter(ins, outs):
            return None
        return {"in": ins, "out": outs}
    if kind == "merge":
        ins = _union(l["in"], r["in"])
        outs = _union(l["out"], r["out"])
        if _inter(ins, outs):
            return None
        return {"in": ins, "out": outs}
    raise HarnessError(kind)


def gen_plan(seed: int) -> Dict:
    rs = env.stream(seed, "plan")
    n = rs.choice([3, 4, 4, 5, 5, 6])
    dom = 3 if (n <= 5 and rs.random() < 0.2) else 2
    names = ["v%d" % i for i in range(n)]
    pool: List[Dict] = []
    npool = rs.choice([2, 2, 3, 3, 4, 5])
    first = _gen_contract(rs, names, dom)
    pool.append(first)
    for _ in range(npool - 1):
        base = rs.choice(pool)
        c = _gen_contract(rs, names, dom, avoid_out=set(base["out"]), prefer_in=set(base["in"]))
        r_w = rs.random()
        if r_w < 0.2 and base["in"] and base["out"]:
            # ring wiring: each contract consumes an output of the other (the allowed-feedback branch of compose when no
            # assumption mentions a loop variable)
            o = rs.choice(base["out"])
            i = rs.choice(base["in"])
            if o not in c["in"] and o not in c["out"]:
                c["in"].append(o)
            if i not in c["out"] and i not in c["in"] and i not in base["out"]:
                c["out"].append(i)
        if r_w < 0.35 and base["a"]:
            # both sides carry the same assumption on a shared top-level input
            sup, table = rs.choice(base["a"])
            if all(v in c["in"] or (v not in c["out"] and v not in base["out"]) for v in sup):
                for v in sup:
                    if v not in c["in"]:
                        c["in"].append(v)
                c["a"].append([list(sup), table])
        pool.append(c)
    ifaces: List[Optional[Dict]] = [{"in": list(c["in"]), "out": list(c["out"])} for c in pool]
    ops: List[Dict] = []
    composed: List[Tuple[int, int, int]] = []  # (result index, l, r)
    nops = rs.choice([1, 2, 2, 3, 3, 4, 5, 6])
    for _ in range(nops):
        kind = rs.choices(["compose", "quotient", "merge"], [0.45, 0.37, 0.18])[0]
        best = None
        for _try in range(10):
            if kind == "quotient" and composed and rs.random() < 0.5:
                res, cl, cr = rs.choice(composed)
                li, ri = res, rs.choice([cl, cr])
            else:
                li = rs.randrange(len(ifaces))
                ri = rs.randrange(len(ifaces))
            l, r = ifaces[li], ifaces[ri]
            if l is None or r is None:
                continue
            extra: List[str] = []
            if kind == "compose":
                cand = _union(l["out"], r["out"])
                intv = _union(_inter(l["out"], r["in"]), _inter(l["in"], r["out"]))
                for v in cand:
                    if rs.random() < (0.3 if v in intv else 0.08):
                        extra.append(v)
                if rs.random() < 0.06:
                    extra.append(rs.choice(names))
            elif kind == "quotient":
                cand = _union(l["in"], r["out"])
                for v in cand:
                    if rs.random() < 0.2:
                        extra.append(v)
                if rs.random() < 0.06:
                    extra.append(rs.choice(names))
            extra = _union([], extra)
            pred = _predict(kind, l, r, extra)
            best = (li, ri, extra, pred)
            if pred is not None or rs.random() < 0.1:
                break
        if best is None:
            continue
        li, ri, extra, pred = best
        op = {"op": kind, "l": li, "r": ri}
        if kind == "compose":
            op["keep"] = extra
            op["simplify"] = rs.random() < 0.5
            op["via"] = rs.choice(["compose", "compose_tactics"])
        elif kind == "quotient":
            op["addl"] = extra
            op["simplify"] = rs.random() < 0.5
            op["via"] = rs.choice(["quotient", "quotient_tactics"])
        ops.append(op)
        ifaces.append(pred)
        if kind == "compose" and pred is not None:
            composed.append((len(ifaces) - 1, li, ri))
        if kind in ("compose", "quotient", "merge") and pred is not None and li != ri and ri < len(pool) and rs.random() < 0.12:
            # the partner is dropped and another contract with the SAME interface takes its place (a new object, quite possibly at
            # the same address): the algebra must follow contents, not object identity
            r_if = ifaces[ri]
            newc = {"in": list(r_if["in"]), "out": list(r_if["out"]),
                    "a": _gen_terms(rs, list(r_if["in"]), dom, rs.choice([0, 1, 2])),
                    "g": _gen_terms(rs, list(r_if["in"]) + list(r_if["out"]), dom, rs.choice([1, 2, 3]), must=list(r_if["out"])), "simplify": False}
            ops.append({"op": "swap", "idx": ri, "contract": newc, "l": ri, "r": ri})
            ifaces.append(None)
            again = dict(op)
            ops.append(again)
            ifaces.append(pred)
    friendliness = rs.choice([0.3, 0.5, 0.5, 0.7, 0.85, 1.0])
    ta = env.stream(seed, "adversary")
    tape: List[int] = []
    for _ in range(64):
        if ta.random() < friendliness:
            tape.append(0)
        else:
            tape.append(ta.randrange(1, 8))
        tape.extend(ta.randrange(1 << 16) for _k in range(3))
    return {"prop": PROP, "seed": seed, "world": {"n": n, "dom": dom, "lossy_str": env.stream(seed, "printing").random() < 0.35}, "pool": pool, "ops": ops, "tape": tape}


# ------------------------------------------------------------------------------ execution
def _imports():
    env.install_pacti_path()
    from pacti.iocontract import IoContract, Var  # noqa: WPS433
    from pacti.utils.errors import IncompatibleArgsError  # noqa: WPS433

    env.assert_pacti_from_tree()
    from pactisim import stub  # noqa: WPS433

    return IoContract, Var, IncompatibleArgsError, stub


def _build(stub, IoContract, Var, world, c: Dict):
    a = stub.StubTermList([stub.StubTerm(tuple(s), world.from_table(tuple(s), t)) for s, t in c["a"]])
    g = stub.StubTermList([stub.StubTerm(tuple(s), world.from_table(tuple(s), t)) for s, t in c["g"]])
    return IoContract(a, g, [Var(x) for x in c["in"]], [Var(x) for x in c["out"]], simplify=bool(c.get("simplify")))


def _classify(exc: BaseException, IncompatibleArgsError) -> str:
    if isinstance(exc, HarnessError):
        raise exc
    if type(exc) is IncompatibleArgsError:
        return "IncompatibleArgsError"
    if type(exc) is ValueError:
        return "ValueError"
    return "OTHER:" + type(exc).__module__ + "." + type(exc).__name__


class _Tracer:
    """Line reach inside pacti/iocontract/iocontract.py (sampled runs only)."""

    def __init__(self, filename: str):
        self.filename = filename
        self.lines: Dict[int, int] = {}

    def __call__(self, frame, event, arg):
        if frame.f_code.co_filename != self.filename:
            return None
        return self._local

    def _local(self, frame, event, arg):
        if event == "line":
            ln = frame.f_lineno
            self.lines[ln] = self.lines.get(ln, 0) + 1
        return self._local


def execute(plan: Dict, trace: bool = False) -> Dict:
    IoContract, Var, IncompatibleArgsError, stub = _imports()
    world = _world(plan["world"]["n"], plan["world"]["dom"])
    sim = stub.Sim(world, stub.Tape(plan["tape"]), bool(plan["world"].get("lossy_str")))
    stub.set_sim(sim)
    tracer = None
    if trace:
        import pacti.iocontract.iocontract as ioc_mod  # noqa: WPS433

        tracer = _Tracer(ioc_mod.__file__)
        sys.settrace(tracer)
    try:
        return _execute(plan, sim, world, IoContract, Var, IncompatibleArgsError, stub, tracer)
    finally:
        if trace:
            sys.settrace(None)
        stub.set_sim(None)


def _sem(c) -> Tuple[int, int]:
    return c.a.sem(), c.g.sem()


def _execute(plan, sim, world, IoContract, Var, IncompatibleArgsError, stub, tracer) -> Dict:
    neg = world.neg
    pool: List[Any] = []
    outcomes: List[str] = []
    violations: List[Dict] = []
    other_exc: List[Dict] = []
    signatures: List[Tuple] = []
    for i, c in enumerate(plan["pool"]):
        sim.event("build", i)
        try:
            pool.append(_build(stub, IoContract, Var, world, c))
            outcomes.append("build:ok")
        except Exception as e:  # noqa: WPS429
            cls = _classify(e, IncompatibleArgsError)
            pool.append(None)
            outcomes.append("build:" + cls)
            if cls.startswith("OTHER"):
                other_exc.append({"where": "build", "index": i, "exc": cls, "msg": str(e)[:200]})
    returned = 0
    for k, op in enumerate(plan["ops"]):
        kind = op["op"]
        if kind == "swap":
            sim.event("swap", op["idx"])
            l = r = res = res2 = None  # no local may keep the old partner alive
            if op["idx"] < len(pool):
                pool[op["idx"]] = None  # drop the old partner first ...
                try:
                    pool[op["idx"]] = _build(stub, IoContract, Var, world, op["contract"])  # ... then build the new one in its place
                except Exception as e:  # noqa: WPS429
                    _classify(e, IncompatibleArgsError)
            pool.append(None)
            outcomes.append("swap:ok")
            continue
        l = pool[op["l"]] if op["l"] < len(pool) else None
        r = pool[op["r"]] if op["r"] < len(pool) else None
        if l is None or r is None:
            pool.append(None)
            outcomes.append(kind + ":skipped")
            continue
        fired_before = dict(sim.fired)
        sim.event("op", k, kind)
        res = None
        res2 = None
        status = "ok"
        # the stub's semantic snapshots of the operands *before* the call: the oracle never trusts
        # that the algebra left them alone
        la, lg = _sem(l)
        ra, rg = _sem(r)
        try:
            if kind == "compose":
                keep = [Var(x) for x in op.get("keep", [])]
                if op.get("via") == "compose_tactics":
                    res, _stats = l.compose_tactics(r, keep, bool(op.get("simplify")), [1, 2, 3])
                else:
                    res = l.compose(r, keep, bool(op.get("simplify")))
            elif kind == "quotient":
                addl = [Var(x) for x in op.get("addl", [])]
                if op.get("via") == "quotient_tactics":
                    res, _stats = l.quotient_tactics(r, addl, bool(op.get("simplify")), [5, 4])
                else:
                    res = l.quotient(r, addl, bool(op.get("simplify")))
            elif kind == "merge":
                res = l.merge(r)
            else:
                raise HarnessError("unknown op %s" % kind)
        except Exception as e:  # noqa: WPS429
            status = _classify(e, IncompatibleArgsError)
            if status.startswith("OTHER"):
                other_exc.append({"where": kind, "index": k, "exc": status, "msg": str(e)[:200]})
        if kind == "merge" and res is not None:
            try:
                res2 = r.merge(l)
            except Exception as e:  # noqa: WPS429
                cls = _classify(e, IncompatibleArgsError)
                if cls.startswith("OTHER"):
                    other_exc.append({"where": "merge_swapped", "index": k, "exc": cls, "msg": str(e)[:200]})
        kinds = tuple(sorted(key for key, v in sim.fired.items() if v != fired_before.get(key, 0)))
        if res is None:
            pool.append(None)
            outcomes.append(kind + ":" + status)
            signatures.append((kind, status, kinds))
            # a call that raises must leave its operands meaning what they meant: a later operation on a silently
            # altered operand returns a contract that is unsound with respect to what the caller composed
            if _sem(l) != (la, lg) or _sem(r) != (ra, rg):
                violations.append({"property": PROP, "oracle": "operand_changed_meaning", "op": kind, "op_index": k, "witness": None})
            continue
        returned += 1
        if not isinstance(res, IoContract):
            raise HarnessError("operation returned %r" % type(res))
        qa, qg = _sem(res)
        viol = None
        if kind == "compose":
            h1 = neg(la) | lg
            h2 = neg(ra) | rg
            bad = qa & h1 & h2 & neg(la & ra & qg)
            if bad:
                viol = ("compose_sound", bad)
        elif kind == "quotient":
            # l is the dividend C, r the existing component C1, res the quotient Q
            h1 = neg(ra) | rg
            hq = neg(qa) | qg
            bad = la & h1 & hq & neg(ra & qa & lg)
            if bad:
                viol = ("quotient_sound", bad)
        else:
            a_exp = la & ra
            if qa != a_exp:
                viol = ("merge_assumptions", qa ^ a_exp)
            elif (qa & qg) != (qa & lg & rg):
                viol = ("merge_guarantees", (qa & qg) ^ (qa & lg & rg))
            else:
                ins = sorted(v.name for v in res.inputvars)
                outs = sorted(v.name for v in res.outputvars)
                e_in = sorted(set(v.name for v in l.inputvars) | set(v.name for v in r.inputvars))
                e_out = sorted(set(v.name for v in l.outputvars) | set(v.name for v in r.outputvars))
                if ins != e_in or outs != e_out:
                    viol = ("merge_interface", 0)
                elif res2 is not None:
                    qa2, qg2 = _sem(res2)
                    if qa2 != qa or (qa2 & qg2) != (qa & qg):
                        viol = ("merge_order", (qa2 ^ qa) | ((qa2 & qg2) ^ (qa & qg)))
        # operands must still mean what they meant (cheap sanity; the full purity check is C13)
        if _sem(l) != (la, lg) or _sem(r) != (ra, rg):
            viol = viol or ("operand_changed_meaning", 0)
        cls = "sound"
        if viol is not None:
            oracle, bad = viol
            witness = None
            if bad:
                b = (bad & -bad).bit_length() - 1
                witness = world.point(b)
            violations.append({"property": PROP, "oracle": oracle, "op": kind, "op_index": k, "witness": witness})
            cls = "VIOLATION:" + oracle
        pool.append(res)
        outcomes.append(kind + ":ok")
        signatures.append((kind, cls, kinds, len(res.a.terms), len(res.g.terms)))
    out = {
        "outcomes": outcomes,
        "returned": returned,
        "violations": violations,
        "other_exceptions": other_exc,
        "fired": dict(sim.fired),
        "primitive_calls": sim.tape.calls,
        "log_digest": env.digest(sim.log),
        "signatures": [env.digest(s)[:16] for s in signatures],
    }
    if tracer is not None:
        out["lines"] = tracer.lines
    return out


def violation_class(v: Dict) -> Tuple:
    return (v["property"], v["oracle"], v["op"])


# ------------------------------------------------------------------------------ minimisation
def _drop_op(plan: Dict, k: int) -> Optional[Dict]:
    """Remove op k and every later op that references its result; renumber references."""
    npool = len(plan["pool"])
    dead = {npool + k}
    new_ops = []
    remap: Dict[int, int] = {i: i for i in range(npool)}
    for j, op in enumerate(plan["ops"]):
        idx = npool + j
        if j == k or op["l"] in dead or op["r"] in dead:
            dead.add(idx)
            continue
        o = dict(op)
        o["l"] = remap[op["l"]]
        o["r"] = remap[op["r"]]
        remap[idx] = npool + len(new_ops)
        new_ops.append(o)
    p = dict(plan)
    p["ops"] = new_ops
    return p


def _drop_pool(plan: Dict, i: int) -> Optional[Dict]:
    for op in plan["ops"]:
        if op["l"] == i or op["r"] == i:
            return None
    p = dict(plan)
    p["pool"] = plan["pool"][:i] + plan["pool"][i + 1:]
    ops = []
    for op in plan["ops"]:
        o = dict(op)
        for side in ("l", "r"):
            if o[side] > i:
                o[side] -= 1
        ops.append(o)
    p["ops"] = ops
    return p


def candidates(plan: Dict):
    """Simpler plans, most aggressive first."""
    # friendliest adversary
    if any(plan["tape"]):
        p = dict(plan)
        p["tape"] = [0] * len(plan["tape"])
        yield p
    for k in reversed(range(len(plan["ops"]))):
        p = _drop_op(plan, k)
        if p is not None and p["ops"]:
            yield p
    for i in reversed(range(len(plan["pool"]))):
        p = _drop_pool(plan, i)
        if p is not None:
            yield p
    # tape: zero halves, frames, single entries
    t = plan["tape"]
    n = len(t)
    step = n // 2
    while step >= 4:
        for s in range(0, n, step):
            if any(t[s:s + step]):
                p = dict(plan)
                p["tape"] = t[:s] + [0] * len(t[s:s + step]) + t[s + step:]
                yield p
        step //= 2
    for s in range(n):
        if t[s]:
            p = dict(plan)
            p["tape"] = t[:s] + [0] + t[s + 1:]
            yield p
    # trailing zeros are noise
    if t and t[-1] == 0:
        tt = list(t)
        while tt and tt[-1] == 0:
            tt.pop()
        p = dict(plan)
        p["tape"] = tt
        yield p
    # per-op simplifications
    for k, op in enumerate(plan["ops"]):
        for key in ("keep", "addl"):
            for x in op.get(key, []):
                o = dict(op)
                o[key] = [y for y in op[key] if y != x]
                p = dict(plan)
                p["ops"] = plan["ops"][:k] + [o] + plan["ops"][k + 1:]
                yield p
        if op.get("simplify"):
            o = dict(op)
            o["simplify"] = False
            p = dict(plan)
            p["ops"] = plan["ops"][:k] + [o] + plan["ops"][k + 1:]
            yield p
        if op.get("via", "").endswith("_tactics"):
            o = dict(op)
            o["via"] = op["op"]
            p = dict(plan)
            p["ops"] = plan["ops"][:k] + [o] + plan["ops"][k + 1:]
            yield p
    # pool simplifications
    dom = plan["world"]["dom"]
    for i, c in enumerate(plan["pool"]):
        def with_c(nc):  # noqa: WPS430
            p = dict(plan)
            p["pool"] = plan["pool"][:i] + [nc] + plan["pool"][i + 1:]
            return p

        if c.get("simplify"):
            nc = dict(c)
            nc["simplify"] = False
            yield with_c(nc)
        for key in ("a", "g"):
            for j in range(len(c[key])):
                nc = dict(c)
                nc[key] = c[key][:j] + c[key][j + 1:]
                yield with_c(nc)
            for j, (sup, table) in enumerate(c[key]):
                full = (1 << (dom ** len(sup))) - 1
                if table != full:
                    # fewer falsifying rows
                    for bit in range(dom ** len(sup)):
                        if not (table >> bit) & 1:
                            nc = dict(c)
                            nc[key] = c[key][:j] + [[sup, table | (1 << bit)]] + c[key][j + 1:]
                            yield with_c(nc)
                for s in sup:
                    if len(sup) > 1:
                        # drop a mentioned variable: keep the rows where it is 0
                        pos = sup.index(s)
                        nsup = [x for x in sup if x != s]
                        ntable = 0
                        for row in range(dom ** len(nsup)):
                            lo = row % (dom ** pos)
                            hi = row // (dom ** pos)
                            old = lo + hi * (dom ** (pos + 1))
                            if (table >> old) & 1:
                                ntable |= 1 << row
                        nc = dict(c)
                        nc[key] = c[key][:j] + [[nsup, ntable]] + c[key][j + 1:]
                        yield with_c(nc)
        for role in ("in", "out"):
            for x in c[role]:
                used = any(x in sup for key in ("a", "g") for sup, _t in c[key])
                if not used:
                    nc = dict(c)
                    nc[role] = [y for y in c[role] if y != x]
                    yield with_c(nc)
