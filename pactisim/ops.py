"""Operation catalogue for simulated sessions over the real library, and the seeded step generator.

A step is explicit data:  {"op": name, "args": {k: {"slot": "C2"} | {"clone": "C2"} | {"lit": canonical}}, "dst": "C4"|"L1"|None, ...}
Execution resolves slots to the live pool objects, builds literals afresh for every call, and draws nothing.
"""
from __future__ import annotations

from typing import Any, Dict, List, Optional, Tuple

from pacti.contracts import PolyhedralIoContract, PolyhedralIoContractCompound
from pacti.iocontract import Var
from pacti.terms.polyhedra import PolyhedralTerm, PolyhedralTermList, serializer
from pacti.utils import fileio

from pactisim import canon as cn
from pactisim.env import HarnessError

NC = 6  # contract slots
NL = 4  # term-list slots
BASE_NAMES = ["x", "y", "z", "u", "v", "w", "t1"]
WIDE_NAMES = BASE_NAMES + ["a", "b", "c", "p", "in_1", "out_22", "k", "m", "n0", "speed_limit_upper_bound_v2"]
SYM_NAMES = ["E", "I", "pi", "S", "N", "lambda", "beta"]  # legal variable names that mean something to sympy
NAMES = list(BASE_NAMES)
EXTRA_NAMES = ["q", "r_2", "long_name"]
STYLE: Dict[str, Any] = {"name": "plain"}


def set_style(style: Optional[Dict]) -> None:
    """Per-run generation style (swarm): part of the plan header, so generation stays a function of the plan."""
    global NAMES  # noqa: WPS420
    STYLE.clear()
    STYLE.update(style or {"name": "plain"})
    NAMES = list(WIDE_NAMES if STYLE.get("name") == "wide" else (SYM_NAMES if STYLE.get("name") == "symnames" else BASE_NAMES))


def draw_style(rs) -> Dict:
    r = rs.random()
    if r < 0.51:
        return {"name": "plain"}
    if r < 0.55:
        return {"name": "symnames"}
    if r < 0.7:
        return {"name": "wide", "max_terms": rs.choice([9, 9, 14, 20])}
    if r < 0.8:
        return {"name": "large", "scales": [1.0, 1e3, 1e5]}
    if r < 0.88:
        return {"name": "tiny", "scales": [1.0, 1e-3, 1e-4]}
    if r < 0.95:
        return {"name": "mixed", "scales": [1e-3, 1.0, 1.0, 1e3]}
    # badly scaled systems: this is where HiGHS itself answers status 4 ("numerical difficulties") on real inputs
    return {"name": "wild", "scales": [1e-8, 1e-4, 1.0, 1e5, 1e11]}


def _scale(rs) -> float:
    sc = STYLE.get("scales")
    return float(rs.choice(sc)) if sc else 1.0

# op families named by C13's quantifier
C13_OPS = [
    "compose", "compose_tactics", "quotient", "quotient_tactics", "merge", "refines", "le", "tl_refines", "tl_le",
    "rename_variable", "rename_variables", "tl_rename_variable", "copy", "tl_copy", "term_copy", "tl_simplify", "c_simplify",
    "elim_refine", "elim_relax", "optimize", "get_variable_bounds", "tl_optimize", "to_machine_dict", "from_dict",
    "to_dict", "from_strings", "to_str_list", "parse", "write_file", "read_file", "tl_or", "tl_sub", "tl_and", "construct",
]
# queries: named by C13's statement ("query"), not by its operation list; they run in C13 sessions too
C13_QUERY_OPS = ["compound_purity", "c_vars", "tl_vars", "c_hash", "compound_misc", "compound_file", "write_file_mixed", "contains_behavior", "evaluate", "is_empty", "contains_environment", "contains_implementation", "vertices",
                 "compound_from_strings", "compound_merge", "compound_le", "c_eq", "tl_eq", "c_str"]
# further public operations in C14's quantifier
C14_EXTRA_OPS = ["plot_assumptions", "plot_guarantees", "c_vars", "tl_vars", "compound_misc", "compound_file", "write_file_mixed", "contains_behavior", "evaluate", "is_empty", "compound_from_strings", "compound_merge", "compound_le",
                 "vertices", "contains_environment", "contains_implementation", "validate_dict", "c_eq", "tl_eq", "c_str", "c_hash"]


def call(name: str, a: Dict[str, Any]) -> Any:  # noqa: WPS212, WPS231
    if name == "compose":
        return a["self"].compose(a["other"], a["keep"], a["simplify"])
    if name == "compose_tactics":
        return a["self"].compose_tactics(a["other"], a["keep"], a["simplify"], a["tactics_order"])
    if name == "quotient":
        return a["self"].quotient(a["other"], a["addl"], a["simplify"])
    if name == "quotient_tactics":
        return a["self"].quotient_tactics(a["other"], a["addl"], a["simplify"], a["tactics_order"])
    if name == "merge":
        return a["self"].merge(a["other"])
    if name == "refines":
        return a["self"].refines(a["other"])
    if name == "le":
        return a["self"] <= a["other"]
    if name == "tl_refines":
        return a["self"].refines(a["other"])
    if name == "tl_le":
        return a["self"] <= a["other"]
    if name == "rename_variable":
        return a["self"].rename_variable(a["src"], a["tgt"])
    if name == "rename_variables":
        return a["self"].rename_variables(a["mappings"])
    if name == "tl_rename_variable":
        return a["self"].rename_variable(a["src"], a["tgt"])
    if name == "copy":
        return a["self"].copy()
    if name == "tl_copy":
        return a["self"].copy()
    if name == "term_copy":
        return [t.copy() for t in a["self"].terms]
    if name == "tl_simplify":
        if a["ctx"] is None:
            return a["self"].simplify()
        return a["self"].simplify(a["ctx"])
    if name == "c_simplify":
        c = a["self"]  # a harness-made clone: IoContract.simplify() is in place by design
        c.simplify()
        return c
    if name == "elim_refine":
        return a["self"].elim_vars_by_refining(a["ctx"], a["vars"], a["simplify"], a["tactics_order"])
    if name == "elim_relax":
        return a["self"].elim_vars_by_relaxing(a["ctx"], a["vars"], a["simplify"], a["tactics_order"])
    if name == "optimize":
        return a["self"].optimize(a["expr"], a["maximize"])
    if name == "get_variable_bounds":
        return a["self"].get_variable_bounds(a["var"])
    if name == "tl_optimize":
        return a["self"].optimize(a["objective"], a["maximize"])
    if name == "to_machine_dict":
        return a["self"].to_machine_dict()
    if name == "from_dict":
        return PolyhedralIoContract.from_dict(a["d"], a["simplify"])
    if name == "to_dict":
        return a["self"].to_dict()
    if name == "from_strings":
        return PolyhedralIoContract.from_strings(a["assumptions"], a["guarantees"], a["input_vars"], a["output_vars"], a["simplify"])
    if name == "to_str_list":
        return a["self"].to_str_list()
    if name == "parse":
        return serializer.polyhedral_termlist_from_string(a["s"])
    if name == "write_file":
        return fileio.write_contracts_to_file(a["contracts"], a["names"], a["file_name"], a["machine"])
    if name == "read_file":
        return fileio.read_contracts_from_file(a["file_name"])
    if name == "write_file_mixed":
        # a plain and a compound contract in one file; with machine=True the writer documents ValueError for the compound one
        c1 = PolyhedralIoContractCompound.from_strings(**a["c1"])
        objs = [a["self"], c1] if a["plain_first"] else [c1, a["self"]]
        return fileio.write_contracts_to_file(objs, ["plain", "k"] if a["plain_first"] else ["k", "plain"], a["file_name"], a["machine"])
    if name == "tl_or":
        return a["self"] | a["other"]
    if name == "tl_sub":
        return a["self"] - a["other"]
    if name == "tl_and":
        return a["self"] & a["other"]
    if name == "construct":
        return PolyhedralIoContract(a["assumptions"], a["guarantees"], a["input_vars"], a["output_vars"], a["simplify"])
    # ---- C14 extras
    if name == "contains_behavior":
        return a["self"].contains_behavior(a["behavior"])
    if name == "evaluate":
        return a["self"].evaluate(a["behavior"])
    if name == "is_empty":
        return a["self"].is_empty()
    if name == "compound_from_strings":
        return PolyhedralIoContractCompound.from_strings(a["assumptions"], a["guarantees"], a["input_vars"], a["output_vars"])
    if name == "compound_merge":
        c1 = PolyhedralIoContractCompound.from_strings(**a["c1"])
        c2 = PolyhedralIoContractCompound.from_strings(**a["c2"])
        return c1.merge(c2)
    if name == "compound_le":
        c1 = PolyhedralIoContractCompound.from_strings(**a["c1"])
        c2 = PolyhedralIoContractCompound.from_strings(**a["c2"])
        return [c1.a <= c2.a, c1.g <= c2.g]
    if name == "compound_misc":
        c1 = PolyhedralIoContractCompound.from_strings(**a["c1"])
        c2 = PolyhedralIoContractCompound.from_strings(**a["c2"])
        out = [c1.to_dict(), str(c1), c1 == c2, c1 == c1, c1.a.contains_behavior(a["behavior"]), c1.g.contains_behavior(a["behavior"])]
        return out
    if name == "compound_purity":
        # compound contracts are not pool members; their purity is checked inside the operation: build two, snapshot them,
        # derive everything derivable, vandalise the derived objects, and see whether the originals or the arguments noticed
        from pactisim import canon as _cn  # noqa: WPS433

        c1 = PolyhedralIoContractCompound.from_strings(**a["c1"])
        c2 = PolyhedralIoContractCompound.from_strings(**a["c2"])
        before = [_cn.canon(c1), _cn.canon(c2)]
        derived = []
        for fn in (lambda: c1.merge(c2), lambda: c1.a.intersect(c2.a, True), lambda: c1.g.intersect(c2.g, False), lambda: c1.a.copy(True),
                   lambda: c1.g.copy(False), lambda: type(c1)(c1.a, c1.g, c1.inputvars, c1.outputvars), lambda: c1.to_dict(),
                   lambda: type(c1.g)(c1.g.nested_termlist, False), lambda: c1.g.simplify(c1.a, False)):
            try:
                derived.append(fn())
            except ValueError:
                derived.append(None)
        mid = [_cn.canon(c1), _cn.canon(c2)]
        shared = []
        r1 = {}
        _cn.reach(c1, r1)
        _cn.reach(c2, r1)
        for k_, d_ in enumerate(derived):
            rd = _cn.reach(d_, {})
            if any(x in r1 for x in rd):
                shared.append(k_)
            _cn.vandalise(d_)
        after = [_cn.canon(c1), _cn.canon(c2)]
        return {"operands_unchanged_by_calls": before == mid, "operands_unchanged_by_editing_results": mid == after, "results_sharing_with_operands": shared}
    if name == "compound_file":
        c1 = PolyhedralIoContractCompound.from_strings(**a["c1"])
        fileio.write_contracts_to_file([c1, a["self"]], ["k", "plain"], a["file_name"], False)
        cs, names = fileio.read_contracts_from_file(a["file_name"])
        return [cs[0].to_dict(), cs[1], names]
    if name in ("plot_assumptions", "plot_guarantees"):
        import pacti.terms.polyhedra.polyhedra as _pl  # noqa: WPS433
        import pacti.utils.plots as plots  # noqa: WPS433

        plots.linprog = _pl.linprog
        fn = plots.plot_assumptions if name == "plot_assumptions" else plots.plot_guarantees
        tr = a.get("transform")
        if name == "plot_guarantees" and tr:
            xt, yt = {"swap": (lambda x, y: y, lambda x, y: x), "scale": (lambda x, y: 2.0 * x + 1.0, lambda x, y: y - x),
                      "square": (lambda x, y: x * x, lambda x, y: x + y)}[tr]
            fig = fn(a["self"], a["x_var"], a["y_var"], a["var_values"], a["x_lims"], a["y_lims"], new_x_var="p", new_y_var="q",
                     x_transform=xt, y_transform=yt, number_of_points=7, show=False)
        else:
            fig = fn(a["self"], a["x_var"], a["y_var"], a["var_values"], a["x_lims"], a["y_lims"], show=False)
        return type(fig).__name__
    if name == "vertices":
        import pacti.terms.polyhedra.polyhedra as _pl  # noqa: WPS433
        import pacti.utils.plots as plots  # noqa: WPS433

        plots.linprog = _pl.linprog  # the same solver seam (or the real solver) as the rest of the library
        return plots.constraints_to_vertices(a["self"], a["x_var"], a["y_var"], a["var_values"], a["x_lims"], a["y_lims"])
    if name == "contains_environment":
        return a["self"].contains_environment(a["component"])
    if name == "contains_implementation":
        return a["self"].contains_implementation(a["component"])
    if name == "validate_dict":
        return serializer.validate_contract_dict(a["d"], "c", a["machine"])
    if name == "c_eq":
        return a["self"] == a["other"]
    if name == "tl_eq":
        return a["self"] == a["other"]
    if name == "c_str":
        return str(a["self"])
    if name == "c_hash":
        return isinstance(hash(a["self"]), int)
    if name == "c_vars":
        return [a["self"].vars, a["self"].a.vars, a["self"].g.vars]
    if name == "tl_vars":
        return [a["self"].vars, [t.vars for t in a["self"].terms]]
    raise HarnessError("unknown op %s" % name)


def strip_timings(name: str, result: Any) -> Any:
    """Tactic timings are the clock's by design; tactic numbers and counts are kept."""
    if name in ("compose_tactics", "quotient_tactics") and isinstance(result, tuple) and len(result) == 2:
        return (result[0], [[(t[0], t[2]) for t in used] for used in result[1]])
    if name in ("elim_refine", "elim_relax") and isinstance(result, tuple) and len(result) == 2:
        return (result[0], [(t[0], t[2]) for t in result[1]])
    return result


def pool_item(name: str, result: Any) -> Tuple[Optional[str], Any]:
    """Which part of a returned value can enter the pool, and as what kind."""
    if isinstance(result, PolyhedralIoContract):
        return "C", result
    if isinstance(result, PolyhedralTermList):
        return "L", result
    if isinstance(result, tuple) and result and isinstance(result[0], PolyhedralIoContract):
        return "C", result[0]
    if isinstance(result, tuple) and result and isinstance(result[0], PolyhedralTermList):
        return "L", result[0]
    if name == "parse" and isinstance(result, list) and all(isinstance(t, PolyhedralTerm) for t in result):
        tl = PolyhedralTermList.__new__(PolyhedralTermList)
        tl.terms = result
        return "L", tl
    if name == "read_file" and isinstance(result, tuple) and result[0] and isinstance(result[0][0], PolyhedralIoContract):
        return "C", result[0][0]
    return None, None


# ------------------------------------------------------------------------------ literals and rendering
COEFFS = [1, 1, -1, -1, 2, -2, 3, 0.5, -0.5, 0.25, 1.5, -1.5, 0.3, 1.7, -2.45, 12.5, 100, 0.125, -4]
CONSTS = [0, 0, 1, 1, 2, 5, 10, -1, 0.5, 3.7, 100, -2, 7, 2.5]


def _fnum(x: float) -> List:
    return ["float", float(x).hex()]


def lit_term(coeffs: Dict[str, float], const: float) -> Dict:
    return {"T": [[k, _fnum(v)] for k, v in coeffs.items() if v != 0], "c": _fnum(const)}


def gen_term(rs, names: List[str], must: Optional[List[str]] = None, nvars: Optional[int] = None) -> Dict:
    k = nvars or rs.choice([1, 1, 2, 2, 2, 3])
    k = max(1, min(k, len(names)))
    chosen = rs.sample(names, k)
    if must and not any(c in must for c in chosen):
        chosen[0] = rs.choice(must)
    chosen = list(dict.fromkeys(chosen))
    sc = _scale(rs)
    coeffs = {nm: float(rs.choice(COEFFS)) * sc for nm in chosen}
    const = float(rs.choice(CONSTS)) * _scale(rs)
    return lit_term(coeffs, const)


def gen_tl(rs, names: List[str], n: Optional[int] = None, must: Optional[List[str]] = None, shapes: bool = True) -> Dict:
    if not names:
        return {"TL": []}
    n = rs.choice([0, 1, 1, 2, 2, 3, 4]) if n is None else n
    if STYLE.get("max_terms") and rs.random() < 0.4:
        n = rs.randrange(4, int(STYLE["max_terms"]) + 1)
    terms = [gen_term(rs, names, must) for _ in range(n)]
    if shapes and terms and rs.random() < 0.45:
        # adversarial shapes: duplicates, parallel rows, opposite rows, boxes
        kind = rs.choice(["dup", "parallel", "opposite", "box", "scaled", "difference", "difference", "difference", "corner", "single", "near", "partial_parallel", "ladder", "ladder", "fork", "fork", "fork", "fork", "tight_contradiction", "tight_contradiction", "near_parallel", "near_parallel", "ring", "ring", "extreme", "extreme", "extreme"])
        t = rs.choice(terms)
        cf = {k: float.fromhex(v[1]) for k, v in t["T"]}
        c0 = float.fromhex(t["c"][1])
        if kind == "dup":
            terms.append(lit_term(cf, c0))
        elif kind == "parallel":
            terms.append(lit_term(cf, c0 + rs.choice([-1.0, 1.0, 2.5])))
        elif kind == "opposite":
            terms.append(lit_term({k: -v for k, v in cf.items()}, rs.choice([c0, -c0, 0.0, 3.0])))
        elif kind == "scaled":
            terms.append(lit_term({k: 2.0 * v for k, v in cf.items()}, 2.0 * c0))
        elif kind == "tight_contradiction":
            # an ordering cycle that is infeasible by less than 1: p <= q <= r <= 0 and p >= m with 0 < m < 1; redundancy tests
            # that relax a bound by one unit do not notice it, an elimination that rewrites a row does
            if len(names) >= 3:
                p_, q_, r_ = rs.sample(names, 3)
                m_ = float(rs.choice([0.5, 0.25, 0.75]))
                rows = [lit_term({p_: 1.0, q_: -1.0}, 0.0), lit_term({q_: 1.0, r_: -1.0}, 0.0), lit_term({r_: 1.0}, 0.0), lit_term({p_: -1.0}, -m_)]
                rs.shuffle(rows)
                return {"TL": rows + (terms[:1] if rs.random() < 0.3 else [])}
        elif kind == "fork":
            # two ordering chains from one root: r <= a1 <= a2 (nothing bounds a2: a dead end) and r <= b1 <= k (k is an anchor);
            # the working candidate row is the LAST one, the root itself is bounded by a one-variable row elsewhere
            if len(names) >= 5:
                r_, a1, a2, b1, k_ = rs.sample(names, 5)
                rows = [lit_term({r_: 1.0, a1: -1.0}, 0.0), lit_term({a1: 1.0, a2: -1.0}, float(rs.choice([0, 1]))),
                        lit_term({b1: 1.0, k_: -1.0}, float(rs.choice([0, 0, 2]))), lit_term({r_: 1.0, b1: -1.0}, 0.0)]
                if rs.random() < 0.3:
                    rs.shuffle(rows)
                terms = (terms[:1] if rs.random() < 0.5 else []) + rows
                if rs.random() < 0.5:
                    terms.insert(0, lit_term({r_: 1.0}, float(rs.choice([1, 2, 5]))))
                rs.shuffle(terms) if False else None
                return {"TL": terms}
        elif kind == "ring":
            # an ordering cycle p1 <= p2 <= p3 (<= p4) <= p1 (feasible: all equal), listed BEFORE its way out p_last <= e1 (<= e2),
            # and a row that bounds p1 by something outside: substitution tactics that walk two-variable rows can circle
            k_r = min(len(names), rs.choice([3, 3, 4]))
            if k_r >= 3:
                ring = rs.sample(names, k_r)
                rows = [lit_term({p_: 1.0, q_: -1.0}, float(rs.choice([0, 0, 0, 1]))) for p_, q_ in zip(ring, ring[1:] + ring[:1])]
                extra = [n_ for n_ in names if n_ not in ring]
                if extra and rs.random() < 0.7:
                    rows.append(lit_term({ring[-1]: 1.0, extra[0]: -1.0}, 0.0))
                    if len(extra) > 1 and rs.random() < 0.5:
                        rows.append(lit_term({extra[0]: 1.0, extra[1]: -1.0}, float(rs.choice([0, 2]))))
                head = lit_term({ring[0]: 1.0, extra[-1]: -1.0}, 0.0) if extra and rs.random() < 0.6 else lit_term({ring[0]: 1.0}, float(rs.choice([1, 5])))
                rows = [head] + rows if rs.random() < 0.5 else rows + [head]
                if rs.random() < 0.7:
                    return {"TL": (terms[:1] if rs.random() < 0.3 else []) + rows}
                terms.extend(rows)
        elif kind == "extreme":
            # legal floats at the ends of the range: quotients of coefficients underflow to zero or overflow to inf, so a variable
            # can vanish from (or poison) a row while a tactic is rewriting it
            if len(names) >= 2:
                p_, q_ = rs.sample(names, 2)
                big, small = rs.choice([(1e200, 1e-200), (1e160, 1e-170), (1e300, 1.0), (1.0, 1e-300), (1e200, 1e200)])
                terms.append(lit_term({p_: big * rs.choice([1.0, -1.0]), q_: small * rs.choice([1.0, -1.0])}, float(rs.choice([0, 0, 1]))))
                others = [n_ for n_ in names if n_ not in (p_, q_)]
                if others and rs.random() < 0.6:
                    terms.append(lit_term({q_: 1.0, others[0]: -1.0}, 0.0))
                if rs.random() < 0.5:
                    terms.append(lit_term({p_: float(rs.choice([1, -1]))}, float(rs.choice([1, 2]))))
        elif kind == "ladder":
            # an ordering chain p1 <= p2 <= p3 (<= p4) with a dead end at the top, plus a second row bounding p1 some other way:
            # recursive substitution tactics have to back out of the dead end and try the next candidate
            k_l = min(len(names), rs.choice([3, 3, 4]))
            if k_l >= 3:
                chain = rs.sample(names, k_l)
                for p_, q_ in zip(chain, chain[1:]):
                    terms.append(lit_term({p_: 1.0, q_: -1.0}, float(rs.choice([0, 0, 1, 2]))))
                extra = [n_ for n_ in names if n_ not in chain]
                if extra and rs.random() < 0.7:
                    terms.append(lit_term({chain[0]: 1.0, extra[0]: float(rs.choice([-1, -2, 1]))}, float(rs.choice(CONSTS))))
                elif rs.random() < 0.5:
                    terms.append(lit_term({chain[0]: 1.0}, float(rs.choice([1, 5, 10]))))
        elif kind == "partial_parallel":
            # two rows that agree on some variables and differ in one other variable: eliminating the common variables
            # leaves a singular / inconsistent system for the context-reduction tactics
            others = [n_ for n_ in names if n_ not in cf]
            if others and cf:
                d1, d2 = dict(cf), dict(cf)
                d1[others[0]] = float(rs.choice([1, -1, 2]))
                d2[others[-1] if len(others) > 1 else others[0]] = float(rs.choice([1, -1, 0.5]))
                terms.append(lit_term(d1, c0))
                terms.append(lit_term(d2, c0 if rs.random() < 0.5 else c0 + 1.0))
        elif kind == "near_parallel":
            # the same row typed twice with different precision in ONE coefficient ((2/3) vs 0.6666666667): nearly, not exactly,
            # parallel - numerical rank tests and symbolic solvers may disagree on whether the pair is singular
            if len(cf) >= 2:
                k0 = rs.choice(sorted(cf))
                eps = rs.choice([1e-10, -1e-10, 3e-12, 1e-9, 1e-13])
                d2 = dict(cf)
                d2[k0] = cf[k0] * (1.0 + eps)
                terms.append(lit_term(d2, c0 + rs.choice([0.0, 0.0, 1.0])))
                if rs.random() < 0.5:
                    terms.append(lit_term({k: -v for k, v in d2.items()}, -c0 + rs.choice([0.0, 1.0])))
        elif kind == "near":
            # almost the same row: identical when printed with four significant digits, different as numbers
            eps = rs.choice([1e-6, -1e-6, 3e-9, 1e-12])
            terms.append(lit_term({k: v * (1.0 + eps) for k, v in cf.items()}, c0 * (1.0 + eps) + (eps if c0 == 0 else 0.0)))
        elif kind == "corner":
            # a box with a diagonal through its corner: the LP optimum is a degenerate vertex (3 active rows in 2-D)
            if len(names) >= 2:
                p_, q_ = rs.sample(names, 2)
                h1, h2 = float(rs.choice([1, 2, 5])), float(rs.choice([1, 2, 5]))
                terms.extend([lit_term({p_: 1.0}, h1), lit_term({q_: 1.0}, h2), lit_term({p_: 1.0, q_: 1.0}, h1 + h2)])
        elif kind == "single":
            # constraints over a single variable only, possibly unbounded on one side
            nm = rs.choice(names)
            terms = [lit_term({nm: float(rs.choice([1, -1, 2]))}, float(rs.choice(CONSTS))) for _ in range(rs.choice([1, 2]))]
        elif kind == "difference":
            # a*p - a*q (+ b*r) <= c: renaming p onto q (or eliminating with p = q) cancels the coefficients
            if len(names) >= 2:
                p_, q_ = rs.sample(names, 2)
                a_ = float(rs.choice([1, 1, 2, 0.5, 3]))
                d = {p_: a_, q_: -a_}
                if len(names) >= 3 and rs.random() < 0.4:
                    r_ = rs.choice([n_ for n_ in names if n_ not in (p_, q_)])
                    d[r_] = float(rs.choice(COEFFS))
                terms.append(lit_term(d, float(rs.choice(CONSTS))))
        else:
            nm = rs.choice(names)
            hi = float(rs.choice([1, 2, 5, 10]))
            terms.append(lit_term({nm: 1.0}, hi))
            terms.append(lit_term({nm: -1.0}, float(rs.choice([0, 0, 1]))))
    rs.shuffle(terms)
    return {"TL": terms}


def gen_contract(rs, ins: List[str], outs: List[str]) -> Dict:
    a = gen_tl(rs, ins, rs.choice([0, 1, 1, 2, 3])) if ins else {"TL": []}
    g = gen_tl(rs, ins + outs, rs.choice([1, 1, 2, 2, 3, 4]), must=outs or None)
    return {"C": [list(ins), list(outs), a, g]}


def gen_initial_pool(rs) -> Dict[str, Dict]:
    names = list(NAMES)
    rs.shuffle(names)
    produced: List[str] = []
    pool: Dict[str, Dict] = {}
    for i in range(NC):
        free = [n for n in names if n not in produced]
        if free and rs.random() < 0.8:
            outs = rs.sample(free, min(len(free), rs.choice([1, 1, 2])))
        else:
            outs = rs.sample(names, rs.choice([1, 2]))
        if rs.random() < 0.07:
            outs = []  # a pure environment / monitor contract: legal, unusual
        produced.extend(o for o in outs if o not in produced)
        cand = [n for n in names if n not in outs]
        pref = [n for n in produced if n not in outs]
        ins: List[str] = []
        for _ in range(rs.choice([0, 1, 1, 2, 2, 3] + ([4, 5] if STYLE.get("name") == "wide" else []))):
            src = pref if (pref and rs.random() < 0.6) else cand
            nm = rs.choice(src)
            if nm not in ins:
                ins.append(nm)
        pool["C%d" % i] = gen_contract(rs, ins, outs)
    if rs.random() < 0.45:
        # a near twin: the same contract with every constant (sometimes every coefficient too) moved in the 6th-12th digit;
        # the two print identically with four significant digits and are different contracts
        src_i, dst_i = rs.sample(range(NC), 2)
        eps = rs.choice([1e-6, -1e-6, 2.5e-4 * 1e-3, 1e-9, 1e-12])
        both = rs.random() < 0.4

        def twin(tl):  # noqa: WPS430
            out = []
            for t in tl["TL"]:
                c0 = float.fromhex(t["c"][1])
                coeffs = {k: float.fromhex(v[1]) * ((1.0 + eps) if both else 1.0) for k, v in t["T"]}
                out.append(lit_term(coeffs, c0 * (1.0 + eps) if c0 != 0 else eps))
            return {"TL": out}

        c = pool["C%d" % src_i]["C"]
        pool["C%d" % dst_i] = {"C": [list(c[0]), list(c[1]), twin(c[2]), twin(c[3])]}
    for j in range(NL):
        if rs.random() < 0.5:
            c = pool["C%d" % rs.randrange(NC)]["C"]
            pool["L%d" % j] = rs.choice([c[2], c[3]])
        else:
            pool["L%d" % j] = gen_tl(rs, rs.sample(NAMES, rs.choice([2, 3, 4])))
    if rs.random() < 0.4:
        # near-twin constraint lists as well (contexts that print alike and are different)
        src_j, dst_j = rs.sample(range(NL), 2)
        eps = rs.choice([1e-6, -1e-6, 3e-7, 1e-9])
        out = []
        for t in pool["L%d" % src_j]["TL"]:
            c0 = float.fromhex(t["c"][1])
            out.append(lit_term({k: float.fromhex(v[1]) for k, v in t["T"]}, c0 * (1.0 + eps) if c0 != 0 else eps))
        if out:
            pool["L%d" % dst_j] = {"TL": out}
    return pool


def fmt_num(x: float, rs) -> str:
    if float(x) == int(x) and abs(x) < 1e6:
        return rs.choice(["%d" % int(x), "%d.0" % int(x), "%d" % int(x)])
    s = "%.6g" % x
    return s


def render_term(t: Dict, rs) -> str:
    """The harness's own printer (never pacti's): 'a x + b y <= c' with optional '*' and spacing."""
    parts = []
    for k, v in t["T"]:
        val = float.fromhex(v[1])
        mag = abs(val)
        if mag == 1:
            body = k
        else:
            body = fmt_num(mag, rs) + rs.choice(["", " ", "*", " * "]) + k
        sign = "-" if val < 0 else "+"
        if not parts:
            parts.append(("-" if val < 0 else "") + body)
        else:
            parts.append(" %s %s" % (sign, body))
    c = float.fromhex(t["c"][1])
    lhs = "".join(parts) if parts else "0"
    cs = ("-" + fmt_num(-c, rs)) if c < 0 else fmt_num(c, rs)
    return lhs + rs.choice([" <= ", "<=", " <=  "]) + cs


def gen_side(rs, names: List[str], depth: int = 0, allow_abs: bool = True) -> str:
    """One side of a relation as a small expression tree over the documented grammar:
    side := item (('+'|'-') item)* ;  item := [k['*']] var | k | [k['*']] '(' side ')' | [k['*']] '|' side '|'"""
    n_items = rs.choice([1, 1, 2, 2, 3]) if depth == 0 else rs.choice([1, 1, 1, 2])
    out = ""
    for i in range(n_items):
        k = rs.choice(["", "", "2", "3", "0.5", "1.5", "(1/2)", "(2*3)", "10", "2*", "0.25 *", "(1/3)"])
        r = rs.random()
        if r < 0.45 or depth >= 2:
            item = (k + ("" if (not k or k.endswith("*")) else rs.choice(["", " ", "*"])) + rs.choice(names)) if rs.random() < 0.85 else rs.choice(["1", "2", "0.5", "7"])
        elif r < 0.8 or not allow_abs:
            item = k + "(" + gen_side(rs, names, depth + 1, allow_abs=False) + ")"
        else:
            item = k + "|" + gen_side(rs, names, depth + 1, allow_abs=False) + "|"
        if i == 0:
            out = rs.choice(["", "", "", "-", "+"]) + item
        else:
            out += rs.choice([" + ", " - ", "+", " -"]) + item
    return out


def gen_string(rs, names: List[str]) -> str:
    """Constraint strings over the documented grammar, including shapes that must be rejected."""
    kind = rs.choice(["plain", "plain", "geq", "eq", "abs", "abs2", "abs_both", "chain", "chain_abs", "abs_cancel", "paren", "arith", "nonconvex",
                      "malformed", "repeat", "tree", "tree", "tree", "tree_eq"])
    if kind == "chain_abs":
        # a chain whose links differ: an early link is an ordinary inequality, a later one is (non-)convex in an absolute value
        a_, b_, c_ = rs.choice(names), rs.choice(names), rs.choice(names)
        return rs.choice(["{n} <= {a} <= |{b}|", "|{b}| <= {a} <= {n}", "{n} <= {a} <= {m} - |{b}|", "0 <= {a} <= |{b}| <= {n}", "|{a}| <= {n} <= |{b}| + {c}",
                          "{a} >= |{b}| >= {n}", "{n} >= {a} >= |{b}|"]).format(a=a_, b=b_, c=c_, n=rs.choice(["1", "2", "0", "3.5"]), m=rs.choice(["5", "10"]))
    if kind == "abs_cancel":
        # absolute values whose contents cancel or are constant, alone or facing another absolute value across the relation
        a_, b_ = rs.choice(names), rs.choice(names)
        return rs.choice(["|{a} - {a}| <= 3 - |{b}|", "|{a} - {a}| <= {n}", "|0| + {b} <= {n}", "|{b}| <= |{a} - {a}| + {n}", "|2{a} - 2*{a}| + |{b}| <= {n}",
                          "|{a}| + |{a} - {a}| <= {n}", "{n}|{a} - {a}| >= {b}", "|1 - 1| <= {b}", "|{a} - {a}| <= {n} - |{b} - {b}|",
                          "|0| <= {n} - |{a} - {a}|", "|{a} - {a}| + |{b} - {b}| <= {n}", "{n} - |{b} - {b}| >= |{a} - {a}|"]).format(a=a_, b=b_, n=rs.choice(["1", "2", "4"]))
    if kind == "abs_both":
        # the same absolute-value term on both sides of the relation (it is combined into one when the sides are subtracted)
        inner = rs.choice(names) if rs.random() < 0.6 else "%s %s %s" % (rs.choice(names), rs.choice(["-", "+"]), rs.choice(names))
        k1, k2 = rs.choice(["3", "2", "", "1.5", "4*"]), rs.choice(["", "", "0.5", "2"])
        rel = rs.choice(["<=", " <= ", ">="])
        return "%s|%s| %s %s|%s| %s %s" % (k1, inner, rel, k2, inner, rs.choice(["+", "-"]), rs.choice(["4", "1", "2.5", rs.choice(names)]))
    if kind == "tree":
        lhs = gen_side(rs, names)
        rel = rs.choice(["<=", "<=", ">=", " <= ", " >= "])
        rhs = gen_side(rs, names, depth=1) if rs.random() < 0.5 else rs.choice(["0", "1", "2.5", "10", "(3)"])
        s3 = (rel + rs.choice(["20", "7", gen_side(rs, names, depth=2)])) if rs.random() < 0.15 else ""
        return lhs + rel + rhs + s3
    if kind == "tree_eq":
        return gen_side(rs, names, allow_abs=False) + rs.choice([" = ", "==", " == ", "="]) + gen_side(rs, names, depth=1, allow_abs=False)
    v = lambda: rs.choice(names)  # noqa: E731
    n = lambda: rs.choice(["2", "3", "0.5", "1.5", "2.25", "10", "1e1", "4.", ".5", "7"])  # noqa: E731
    sp = lambda: rs.choice(["", " "])  # noqa: E731
    if kind == "plain":
        return render_term(gen_term(rs, names), rs)
    if kind == "geq":
        return "%s%s%s >= %s %s" % (n(), sp(), v(), n(), rs.choice(["", "- " + v(), "+ 2" + v()]))
    if kind == "eq":
        return "%s %s %s%s %s %s" % (v(), rs.choice(["+", "-"]), n(), v(), rs.choice(["=", "=="]), n())
    if kind == "abs":
        return "|%s %s %s%s| <= %s" % (v(), rs.choice(["+", "-"]), n(), v(), n())
    if kind == "abs2":
        return "%s|%s| + |%s - %s| <= %s" % (rs.choice(["", "2", "2*", "0.5 "]), v(), v(), v(), n())
    if kind == "chain":
        return "%s <= %s%s%s <= %s" % (n(), rs.choice(["", "2", "3*"]), v(), rs.choice(["", " + " + v()]), rs.choice(["20", "30", "15.5"]))
    if kind == "paren":
        return "%s(%s %s %s) %s %s <= %s" % (n(), v(), rs.choice(["+", "-"]), v(), rs.choice(["+", "-"]), v(), n())
    if kind == "arith":
        # constant arithmetic, now and then with a zero divisor (written out or computed)
        den = rs.choice(["2", "4", "0.5", "2", "4", "0", "(2-2)", "0.0"])
        return "(%s %s %s)%s%s <= (%s)" % (n(), rs.choice(["+", "*", "/", "-", "/"]), den, rs.choice(["", "*"]), v(), n())
    if kind == "repeat":
        a = v()
        return "%s + %s%s - %s <= %s" % (a, n(), a, rs.choice([a, v()]), n())
    if kind == "nonconvex":
        return rs.choice(["-|{a}| <= {n}", "|{a}| >= {n}", "{n} - |{a}| <= {m}", "{a} <= -|{b}|", "|{a}| - |{b}| <= {n}"]).format(a=v(), b=v(), n=n(), m=n())
    return rs.choice(["{a} <= ", "<= {a}", "{a} + <= 2", "{a} < 3", "2 {a} {b} <= 1 1", "{a} ** 2 <= 1", "({a} <= 3", "|{a} <= 3", "", "{a}", "3 <= 4 <"]).format(a=v(), b=v())


def machine_dict_of(c: Dict) -> Dict:
    """Machine dictionary of a canonical contract, built by the harness (plain Python floats)."""
    ins, outs, a, g = c["C"]

    def clause(t):
        return {"constant": float.fromhex(t["c"][1]), "coefficients": {k: float.fromhex(v[1]) for k, v in t["T"]}}

    return {"input_vars": list(ins), "output_vars": list(outs), "assumptions": [clause(t) for t in a["TL"]], "guarantees": [clause(t) for t in g["TL"]]}


TACTIC_ORDERS = [None, None, None, [1, 2, 3, 4, 5], [5, 4, 3, 2, 1], [1], [2], [3], [3], [4], [5], [5, 1], [2, 4], [6], [], [4, 5, 1], [3, 1, 2], [3, 4]]


# ------------------------------------------------------------------------------ seeded step generator
class View:
    """What the generator may look at: interfaces and variable mentions of the current pool (canonical)."""

    def __init__(self, pool_canon: Dict[str, Dict], files: Dict[str, str], recent: Optional[Dict[str, str]] = None):
        self.pool = pool_canon
        self.files = files
        self.recent = recent or {}  # kind -> slot that received the latest result

    def ins(self, s: str) -> List[str]:
        return list(self.pool[s]["C"][0])

    def outs(self, s: str) -> List[str]:
        return list(self.pool[s]["C"][1])

    def tl_vars(self, tl: Dict) -> List[str]:
        out: List[str] = []
        for t in tl["TL"]:
            for k, _v in t["T"]:
                if k not in out:
                    out.append(k)
        return out

    def _degenerate_vars(self, slot: str) -> Optional[List[str]]:
        """None if the slot holds nothing degenerate; else the variables that carry a zero coefficient (maybe none)."""
        c = self.pool[slot]
        tls = c["C"][2:4] if "C" in c else [c]
        found = False
        zero: List[str] = []
        for tl in tls:
            for t in tl["TL"]:
                if not t["T"]:
                    found = True
                for k, v in t["T"]:
                    if isinstance(v, list) and v[1] in ("0x0.0p+0", "-0x0.0p+0"):
                        found = True
                        if k not in zero:
                            zero.append(k)
        return zero if found else None

    def degenerate(self) -> Tuple[Optional[str], List[str], bool]:
        """(slot, zero-coefficient variables, is it the freshest result) for a slot holding a term with a zero
        coefficient or with no variable at all; the freshest result is preferred."""
        recent = [self.recent.get("C"), self.recent.get("L")]
        for slot in [x for x in recent if x]:
            z = self._degenerate_vars(slot)
            if z is not None:
                return slot, z, True
        for slot in sorted(self.pool):
            z = self._degenerate_vars(slot)
            if z is not None:
                return slot, z, False
        return None, [], False

    def cvars(self, s: str) -> List[str]:
        return self.ins(s) + [o for o in self.outs(s) if o not in self.ins(s)]


def cancelling_pairs(tls: List[Dict]) -> List[Tuple[str, str]]:
    """(p, q) such that some term has coefficient(p) == -coefficient(q): renaming p onto q cancels them."""
    out: List[Tuple[str, str]] = []
    for tl in tls:
        for t in tl["TL"]:
            cf = [(k, float.fromhex(v[1])) for k, v in t["T"] if isinstance(v, list) and v[0].startswith("float")]
            for i, (k1, v1) in enumerate(cf):
                for k2, v2 in cf[i + 1:]:
                    if v1 == -v2 and v1 != 0 and (k1, k2) not in out:
                        out.append((k1, k2))
                        out.append((k2, k1))
    return out


def near_twins(c1: Dict, c2: Dict) -> bool:
    """Two canonical contracts / lists with the same shape whose numbers agree to about three digits but are not all equal."""
    if ("C" in c1) != ("C" in c2):
        return False
    if "C" in c1:
        if c1["C"][0] != c2["C"][0] or c1["C"][1] != c2["C"][1]:
            return False
        t1 = c1["C"][2]["TL"] + c1["C"][3]["TL"]
        t2 = c2["C"][2]["TL"] + c2["C"][3]["TL"]
        if len(c1["C"][2]["TL"]) != len(c2["C"][2]["TL"]):
            return False
    else:
        t1, t2 = c1["TL"], c2["TL"]
    if len(t1) != len(t2) or not t1:
        return False
    differs = False
    for a, b in zip(t1, t2):
        if [k for k, _v in a["T"]] != [k for k, _v in b["T"]]:
            return False
        na = [float.fromhex(v[1]) for _k, v in a["T"]] + [float.fromhex(a["c"][1])]
        nb = [float.fromhex(v[1]) for _k, v in b["T"]] + [float.fromhex(b["c"][1])]
        for x, y in zip(na, nb):
            if x != y:
                differs = True
                if abs(x - y) > 1e-3 * max(abs(x), abs(y), 1e-9) and abs(x - y) > 1e-5:
                    return False
    return differs


def _subset(rs, items: List[str], p: float) -> List[str]:
    return [x for x in items if rs.random() < p]


def _lit(x: Any) -> Dict:
    return {"lit": cn.canon(x)}


def _extreme_row_vars(tl: Dict) -> List[str]:
    for t_c in tl.get("TL", []):
        mags = [abs(float.fromhex(v[1])) for _k, v in t_c["T"] if isinstance(v, list) and v[0].startswith("float")]
        if len(mags) >= 2 and any(m > 1e100 or 0 < m < 1e-100 for m in mags):
            return [k for k, _v in t_c["T"] if isinstance(k, str)]
    return []


def _ordering_rows(tl: Dict) -> int:
    n = 0
    for t_c in tl.get("TL", []):
        if len(t_c["T"]) == 2:
            (_k1, v1), (_k2, v2) = t_c["T"]
            if float.fromhex(v1[1]) == -float.fromhex(v2[1]):
                n += 1
    return n


def gen_step(rs, view: View, allowed_ops: List[str], weights: Optional[Dict[str, float]] = None) -> Dict:  # noqa: WPS231, WPS212
    w = [((weights or {}).get(o, 1.0)) for o in allowed_ops]
    name = rs.choices(allowed_ops, w)[0]
    deg, deg_zero, deg_fresh = view.degenerate()
    force_plain = False
    if deg is not None and rs.random() >= (0.6 if deg_fresh else 0.3):
        deg = None
    if deg is not None:
        # a degenerate shape was just created: eliminate / compare / compose on it before it is overwritten
        cand = ["quotient", "quotient_tactics", "compose", "compose_tactics", "c_simplify", "copy", "refines"] if deg.startswith("C") else ["elim_refine", "elim_relax", "tl_simplify", "tl_refines", "is_empty", "to_str_list"]
        cand = [o for o in cand if o in allowed_ops]
        if cand:
            name = rs.choice(cand)
            force_plain = rs.random() < 0.7
    cs = ["C%d" % i for i in range(NC)]
    ls = ["L%d" % i for i in range(NL)]
    ci, cj = rs.choice(cs), rs.choice(cs)
    li, lj = rs.choice(ls), rs.choice(ls)
    # bias towards the freshest results: faults and odd shapes matter most right after they were created
    rc, rl = view.recent.get("C"), view.recent.get("L")
    if rc and rs.random() < 0.45:
        ci = rc
    if rl and rs.random() < 0.45:
        li = rl
    p_recent = 0.4
    if deg is not None:
        p_recent = 0.9
        if deg.startswith("C"):
            ci = rc = deg
        else:
            li = rl = deg
    step: Dict[str, Any] = {"op": name, "args": {}, "dst": None}
    A = step["args"]
    dstC = rs.choice(cs)
    dstL = rs.choice(ls)

    def pick_composable() -> Tuple[str, str]:
        for _ in range(8):
            a, b = rs.choice(cs), rs.choice(cs)
            if rc and rs.random() < p_recent:
                a = rc
            if a != b and not set(view.outs(a)) & set(view.outs(b)):
                # prefer pairs that are actually wired
                if set(view.outs(a)) & set(view.ins(b)) or set(view.outs(b)) & set(view.ins(a)) or rs.random() < 0.3:
                    return a, b
        return rs.choice(cs), rs.choice(cs)

    if name in ("compose", "compose_tactics"):
        a, b = pick_composable()
        internal = [v for v in view.outs(a) if v in view.ins(b)] + [v for v in view.outs(b) if v in view.ins(a)]
        keep = _subset(rs, internal, 0.3) + _subset(rs, [v for v in view.outs(a) + view.outs(b) if v not in internal], 0.05)
        if rs.random() < 0.04:
            keep.append(rs.choice(NAMES))
        keep = list(dict.fromkeys(keep))
        if rs.random() < 0.06:
            pool_k = keep or internal or view.outs(a)
            keep = keep + [x for x in rs.sample(pool_k, min(len(pool_k), rs.choice([1, 2])))]  # repeated names
        A["self"] = {"slot": a}
        A["other"] = {"slot": b}
        A["keep"] = _lit(keep)
        A["simplify"] = _lit(rs.random() < 0.7)
        if name == "compose_tactics":
            A["tactics_order"] = _lit(rs.choice(TACTIC_ORDERS))
        step["dst"] = dstC
    elif name in ("quotient", "quotient_tactics"):
        a, b = ci, cj
        for _ in range(8):
            a, b = rs.choice(cs), rs.choice(cs)
            if rc and rs.random() < p_recent:
                a = rc
            ok = not (set(view.outs(a)) - set(view.outs(b))) & set(view.ins(b))
            shares = set(view.cvars(a)) & set(view.cvars(b))
            if ok and shares and a != b:
                break
        cand = view.ins(a) + [o for o in view.outs(b) if o not in view.ins(a)]
        addl = _subset(rs, cand, 0.2)
        if rs.random() < 0.04:
            addl.append(rs.choice(NAMES))
        A["self"] = {"slot": a}
        A["other"] = {"slot": b}
        addl = list(dict.fromkeys(addl))
        if rs.random() < 0.06 and cand:
            addl = addl + rs.sample(addl or cand, min(len(addl or cand), rs.choice([1, 2])))  # repeated names
        A["addl"] = _lit([Var(x) for x in addl]) if (addl or rs.random() < 0.5) else _lit(None)
        A["simplify"] = _lit(rs.random() < 0.7)
        if name == "quotient_tactics":
            A["tactics_order"] = _lit(rs.choice(TACTIC_ORDERS))
        step["dst"] = dstC
    elif name == "merge":
        a, b = ci, cj
        for _ in range(6):
            a, b = rs.choice(cs), rs.choice(cs)
            if not (set(view.ins(a)) | set(view.ins(b))) & (set(view.outs(a)) | set(view.outs(b))):
                break
        A["self"] = {"slot": a}
        A["other"] = {"slot": b}
        step["dst"] = dstC
    elif name in ("refines", "le", "c_eq"):
        a, b = ci, cj
        same = [(p, q) for p in cs for q in cs if p != q and sorted(view.ins(p)) == sorted(view.ins(q)) and sorted(view.outs(p)) == sorted(view.outs(q))]
        r = rs.random()
        if same and r < 0.6:
            a, b = rs.choice(same)
        elif r < 0.75:
            b = a
        A["self"] = {"slot": a}
        A["other"] = {"slot": b}
    elif name in ("tl_refines", "tl_le", "tl_or", "tl_sub", "tl_and", "tl_eq"):
        A["self"] = {"slot": li}
        A["other"] = {"slot": lj}
        if name in ("tl_or", "tl_sub", "tl_and"):
            step["dst"] = dstL
    elif name == "rename_variable":
        vs = view.cvars(ci)
        src = rs.choice(vs) if (vs and rs.random() < 0.9) else rs.choice(NAMES)
        # half of the time merge two variables of the same contract (coefficients may cancel)
        tgt = rs.choice(vs) if (len(vs) > 1 and rs.random() < 0.5) else rs.choice(NAMES + EXTRA_NAMES)
        pairs = cancelling_pairs(view.pool[ci]["C"][2:4])
        if pairs and rs.random() < 0.6:
            src, tgt = rs.choice(pairs)  # zero coefficients that cancel
        A["self"] = {"slot": ci}
        A["src"] = _lit(Var(src))
        A["tgt"] = _lit(Var(tgt))
        step["dst"] = dstC
    elif name == "rename_variables":
        vs = view.cvars(ci) or NAMES
        maps = [(rs.choice(vs), rs.choice(vs) if rs.random() < 0.4 else rs.choice(NAMES + EXTRA_NAMES)) for _ in range(rs.choice([0, 1, 1, 2, 3]))]
        A["self"] = {"slot": ci}
        A["mappings"] = _lit(maps)
        step["dst"] = dstC
    elif name == "tl_rename_variable":
        vs = view.tl_vars(view.pool[li])
        src = rs.choice(vs) if (vs and rs.random() < 0.9) else rs.choice(NAMES)
        tgt = rs.choice(vs) if (len(vs) > 1 and rs.random() < 0.5) else rs.choice(NAMES + EXTRA_NAMES)
        pairs = cancelling_pairs([view.pool[li]])
        if pairs and rs.random() < 0.6:
            src, tgt = rs.choice(pairs)
        A["self"] = {"slot": li}
        A["src"] = _lit(Var(src))
        A["tgt"] = _lit(Var(tgt))
        step["dst"] = dstL
    elif name in ("copy", "to_machine_dict", "to_dict", "c_str", "c_hash", "c_vars"):
        A["self"] = {"slot": ci}
        if name == "copy":
            step["dst"] = dstC
    elif name in ("tl_copy", "term_copy", "to_str_list", "is_empty", "tl_vars"):
        A["self"] = {"slot": li}
        if name == "tl_copy":
            step["dst"] = dstL
    elif name == "tl_simplify":
        A["self"] = {"slot": li}
        A["ctx"] = {"slot": lj} if rs.random() < 0.6 else _lit(None)
        step["dst"] = dstL
    elif name == "c_simplify":
        A["self"] = {"clone": ci}
        step["dst"] = dstC
    elif name in ("elim_refine", "elim_relax"):
        r_el = rs.random()
        ext_vars: List[str] = []
        if deg is None and rs.random() < (0.6 if any(_extreme_row_vars(view.pool[s_]) for s_ in ls) else 0.35):
            # prefer a list that is rich in ordering rows (a*p - a*q <= c): chains, forks, ladders and rings live there, and the
            # substitution tactics only have something to walk when most of what they mention is eliminated
            rich = [s_ for s_ in ls if _ordering_rows(view.pool[s_]) >= 3]
            ext = [s_ for s_ in ls if _extreme_row_vars(view.pool[s_])]
            if ext and (not rich or rs.random() < 0.5):
                li = rs.choice(ext)
                ext_vars = _extreme_row_vars(view.pool[li])
            elif rich:
                li = rs.choice(rich)
                if rs.random() < 0.6:
                    r_el = 0.7
        vs = view.tl_vars(view.pool[li])
        cvs = view.tl_vars(view.pool[lj])
        elim = _subset(rs, vs, 0.4) or (vs[:1] if vs else [rs.choice(NAMES)])
        if r_el < 0.15:
            elim = elim + _subset(rs, cvs, 0.3)
        elif r_el < 0.3:
            elim = list(vs) + _subset(rs, cvs, 0.5)  # more eliminated variables than usable context rows
        elif r_el < 0.42:
            # every variable of one wide row that the context also mentions: the context-reduction tactics (1 and 5) then
            # have to solve a system in two or three unknowns at once
            wide = [t_c for t_c in view.pool[li]["TL"] if len(t_c["T"]) >= 2]
            if wide:
                row = rs.choice(wide)
                both = [k_c for k_c, _ in row["T"] if isinstance(k_c, str) and k_c in cvs]
                if len(both) >= 2:
                    elim = both
        if r_el > 0.92:
            elim = [rs.choice([n_ for n_ in NAMES + EXTRA_NAMES if n_ not in vs] or NAMES)]  # nothing mentions it
        elif 0.6 < r_el <= 0.8:
            # eliminate every variable that sits on an ordering chain (rows a*p - a*q <= c) of the list or its context:
            # the substitution tactics then have to walk the chains, dead ends included
            chainv: List[str] = []
            for tl_c in (view.pool[li], view.pool[lj]):
                for t_c in tl_c["TL"]:
                    if len(t_c["T"]) == 2:
                        (k1, v1), (k2, v2) = t_c["T"]
                        if float.fromhex(v1[1]) == -float.fromhex(v2[1]):
                            for k_c in (k1, k2):
                                if k_c not in chainv:
                                    chainv.append(k_c)
            if chainv:
                # keep the anchors: variables that only ever appear as the upper end of a chain row
                lower = set()
                upper = set()
                for tl_c in (view.pool[li], view.pool[lj]):
                    for t_c in tl_c["TL"]:
                        if len(t_c["T"]) == 2:
                            (k1, v1), (k2, v2) = t_c["T"]
                            c1 = float.fromhex(v1[1])
                            if c1 == -float.fromhex(v2[1]):
                                lower.add(k1 if c1 > 0 else k2)
                                upper.add(k2 if c1 > 0 else k1)
                anchors = [v_ for v_ in chainv if v_ in upper and v_ not in lower]
                keep_n = rs.choice([0, 1, 1, 2])
                kept_anchor = rs.sample(anchors, min(keep_n, len(anchors)))
                elim = [v_ for v_ in chainv if v_ not in kept_anchor]
        if deg is not None and li == deg and deg_zero:
            elim = list(dict.fromkeys(deg_zero + (elim if rs.random() < 0.5 else [])))  # eliminate what cancelled
        if ext_vars and r_el < 0.8:
            # both variables of a row whose coefficients sit at opposite ends of the float range
            elim = list(dict.fromkeys(ext_vars + _subset(rs, [v_ for v_ in vs if v_ not in ext_vars], 0.3)))
        A["self"] = {"slot": li}
        A["ctx"] = {"slot": lj}
        A["vars"] = _lit([Var(x) for x in dict.fromkeys(elim)])
        A["simplify"] = _lit(rs.random() < 0.35)  # biased to False: the operand itself enters the transformation
        A["tactics_order"] = _lit(rs.choice(TACTIC_ORDERS))
        step["dst"] = dstL
    elif name == "optimize":
        vs = view.cvars(ci) or NAMES
        k = rs.choice([1, 1, 2, 3])
        terms = []
        for nm in rs.sample(vs, min(k, len(vs))):
            c = rs.choice(["", "2", "-", "-3", "0.5", "-1.5"])
            terms.append((c, nm))
        expr = ""
        for c, nm in terms:
            if not expr:
                expr = c + nm
            elif c.startswith("-"):
                expr += " - " + c[1:] + nm
            else:
                expr += " + " + c + nm
        if rs.random() < 0.35:
            expr = gen_side(rs, vs, depth=1, allow_abs=False)  # parenthesised factors, constant arithmetic, repeated variables
        A["self"] = {"slot": ci}
        A["expr"] = _lit(expr)
        A["maximize"] = _lit(rs.random() < 0.5)
    elif name == "get_variable_bounds":
        vs = view.cvars(ci) or NAMES
        A["self"] = {"slot": ci}
        A["var"] = _lit(rs.choice(vs))
    elif name == "tl_optimize":
        vs = view.tl_vars(view.pool[li]) or NAMES
        obj = {Var(nm): float(rs.choice([1, -1, 2, 0.5, 0.0])) for nm in rs.sample(vs, min(len(vs), rs.choice([1, 2])))}
        if rs.random() < 0.25:
            # a variable the constraints do not mention, possibly with weight exactly zero
            obj[Var(rs.choice([n_ for n_ in NAMES + EXTRA_NAMES if n_ not in vs] or NAMES))] = float(rs.choice([0.0, 0.0, 1.0, -2.0]))
        A["self"] = {"slot": li}
        A["objective"] = _lit(obj)
        A["maximize"] = _lit(rs.random() < 0.5)
    elif name == "from_dict":
        d = machine_dict_of(view.pool[ci])
        if rs.random() < 0.3:
            # well-kinded but semantically odd records
            odd = rs.choice(["dup_in", "dup2", "both", "undeclared", "zero", "empty_in", "huge", "drop_decl"])
            allv = d["input_vars"] + d["output_vars"]
            clauses = d["assumptions"] + d["guarantees"]
            if odd == "dup_in" and d["input_vars"]:
                d["input_vars"].append(d["input_vars"][0])
            elif odd == "dup2":
                side = d["input_vars"] if len(d["input_vars"]) >= 2 else d["output_vars"]
                side.extend(side[:2] if rs.random() < 0.5 else side[:2][::-1])
            elif odd == "both" and d["output_vars"]:
                d["input_vars"].append(d["output_vars"][0])
            elif odd == "undeclared" and clauses:
                rs.choice(clauses)["coefficients"]["zz_undeclared"] = float(rs.choice([1.0, 0.0]))
            elif odd == "zero" and clauses:
                cl = rs.choice(clauses)
                if cl["coefficients"]:
                    cl["coefficients"][rs.choice(sorted(cl["coefficients"]))] = 0.0
            elif odd == "empty_in":
                d["input_vars"] = []
            elif odd == "huge" and clauses:
                cl = rs.choice(clauses)
                cl["constant"] = float(rs.choice([1e308, -1e308, 1e-320, 1e30]))
            elif odd == "drop_decl" and allv:
                v0 = rs.choice(allv)
                d["input_vars"] = [x for x in d["input_vars"] if x != v0]
                d["output_vars"] = [x for x in d["output_vars"] if x != v0]
        A["d"] = _lit(d)
        A["simplify"] = _lit(rs.random() < 0.5)
        step["dst"] = dstC
    elif name in ("from_strings", "construct"):
        c = view.pool[ci]["C"]
        if name == "from_strings":
            sr = rs
            a_strs = [render_term(t, sr) for t in c[2]["TL"] if t["T"]]
            g_strs = [render_term(t, sr) for t in c[3]["TL"] if t["T"]]
            if rs.random() < 0.3:
                g_strs.append(gen_string(rs, c[0] + c[1] or NAMES))
            A["assumptions"] = _lit(a_strs)
            A["guarantees"] = _lit(g_strs)
            A["input_vars"] = _lit(list(c[0]))
            A["output_vars"] = _lit(list(c[1]))
        else:
            A["assumptions"] = {"slot": li} if rs.random() < 0.3 else {"lit": c[2]}
            A["guarantees"] = {"slot": lj} if rs.random() < 0.3 else {"lit": c[3]}
            ins, outs = list(c[0]), list(c[1])
            r_c = rs.random()
            if r_c < 0.1:
                ins.append(rs.choice(NAMES))
            elif r_c < 0.16:
                side = ins if (ins and rs.random() < 0.5) else outs
                side.extend(rs.sample(side, min(len(side), rs.choice([1, 2]))))  # one or two names repeated
            A["input_vars"] = _lit([Var(x) for x in ins])
            A["output_vars"] = _lit([Var(x) for x in outs])
        A["simplify"] = _lit(rs.random() < 0.6)
        step["dst"] = dstC
    elif name == "parse":
        A["s"] = _lit(gen_string(rs, NAMES))
        step["dst"] = dstL
    elif name == "write_file":
        k = rs.choice([1, 1, 2, 3])
        slots = [rs.choice(cs) for _ in range(k)]
        A["contracts"] = {"slots": slots}
        A["names"] = _lit(["c%d" % i for i in range(k)])
        A["file_name"] = _lit(rs.choice(["a.json", "b.json"]))
        A["machine"] = _lit(rs.random() < 0.5)
    elif name == "read_file":
        names = sorted(view.files) or ["a.json"]
        A["file_name"] = _lit(rs.choice(names + (["missing.json"] if rs.random() < 0.1 else [])))
        step["dst"] = dstC
    # ---------------- C14 extras
    elif name in ("contains_behavior", "evaluate"):
        vs = view.tl_vars(view.pool[li])
        beh = {Var(nm): float(rs.choice([0, 1, -1, 2.5, 10, 100])) for nm in vs}
        if vs and rs.random() < 0.2:
            beh.pop(Var(rs.choice(vs)))
        if rs.random() < 0.2:
            beh[Var(rs.choice(NAMES))] = 1.0
        A["self"] = {"slot": li}
        A["behavior"] = _lit(beh)
    elif name in ("contains_environment", "contains_implementation"):
        A["self"] = {"slot": ci}
        A["component"] = {"slot": li}
    elif name in ("compound_from_strings", "compound_merge", "compound_le", "compound_misc", "compound_file", "compound_purity", "write_file_mixed"):
        def comp():  # noqa: WPS430
            iv = rs.choice(NAMES[:3])
            ov = rs.choice(NAMES[3:6])
            cuts = sorted(rs.sample([0, 1, 2, 3, 4, 5, 6], rs.choice([2, 3, 4])))
            a = []
            for lo, hi in zip(cuts, cuts[1:]):
                r_gap = rs.random()
                gap = rs.choice([0.5, 0.25]) if r_gap < 0.85 else (0 if r_gap < 0.95 else -0.5)
                a.append(["%s >= %s" % (iv, lo), "%s <= %s" % (iv, hi - gap)])
            g = [["%s <= %s%s" % (ov, rs.choice(["2", "3", ""]), iv)], ["%s >= %s" % (ov, rs.choice(["0", "1"]))]][: rs.choice([1, 2])]
            r_sh = rs.random()
            if r_sh < 0.06:
                a = []  # no piece at all
            elif r_sh < 0.12:
                a = a[:1] + [[]]  # a piece without constraints (overlaps everything)
            elif r_sh < 0.18:
                g = []
            elif r_sh < 0.24:
                g = g + [[]]
            return {"assumptions": a, "guarantees": g, "input_vars": [iv], "output_vars": [ov]}

        if name == "compound_from_strings":
            for k, v in comp().items():
                A[k] = _lit(v)
        elif name == "compound_misc":
            c1 = comp()
            A["c1"] = _lit(c1)
            A["c2"] = _lit(comp() if rs.random() < 0.6 else c1)
            beh = {Var(c1["input_vars"][0]): float(rs.choice([0, 0.5, 1, 2.5, 4, 10])), Var(c1["output_vars"][0]): float(rs.choice([0, 1, 3, 100]))}
            if rs.random() < 0.15:
                beh.pop(Var(c1["output_vars"][0]))
            A["behavior"] = _lit(beh)
        elif name == "compound_file":
            A["c1"] = _lit(comp())
            A["self"] = {"slot": ci}
            A["file_name"] = _lit("comp.json")
        elif name == "write_file_mixed":
            A["c1"] = _lit(comp())
            A["self"] = {"slot": ci}
            # mostly onto a file that already holds records: a rejected write must leave them as they were
            A["file_name"] = _lit(rs.choice(sorted(view.files) or ["a.json"]) if rs.random() < 0.8 else rs.choice(["a.json", "b.json"]))
            A["machine"] = _lit(rs.random() < 0.6)
            A["plain_first"] = _lit(rs.random() < 0.5)
        else:
            A["c1"] = _lit(comp())
            A["c2"] = _lit(comp())
    elif name in ("plot_assumptions", "plot_guarantees"):
        c = view.pool[ci]["C"]
        mention = view.tl_vars(c[2]) if name == "plot_assumptions" else view.tl_vars({"TL": c[2]["TL"] + c[3]["TL"]})
        allv = view.cvars(ci)
        cand = [n for n in mention] + [n for n in allv if n not in mention]
        xs = cand[:2] if len(cand) >= 2 else (cand + [n for n in NAMES if n not in cand])[:2]
        if rs.random() < 0.5:
            xs = xs[::-1]
        others = [n for n in mention if n not in xs]
        as_str = rs.random() < 0.5
        key = (lambda n: n) if as_str else (lambda n: Var(n))  # noqa: E731
        vals = {key(nm): float(rs.choice([0, 1, 2, -1])) for nm in others}
        if others and rs.random() < 0.1:
            vals.pop(key(others[0]))
        if rs.random() < 0.05:
            vals[key(rs.choice(NAMES))] = 1.0
        lo, hi = float(rs.choice([-10, 0, -1])), float(rs.choice([10, 5, 100]))
        A["self"] = {"slot": ci}
        A["x_var"] = _lit(xs[0] if as_str else Var(xs[0]))
        A["y_var"] = _lit(xs[1] if as_str else Var(xs[1]))
        A["var_values"] = _lit(vals)
        if name == "plot_guarantees":
            A["transform"] = _lit(rs.choice([None, None, "swap", "scale", "square"]))
        A["x_lims"] = _lit((lo, hi) if rs.random() < 0.9 else (hi, lo))
        A["y_lims"] = _lit((float(rs.choice([-10, 0, -1])), float(rs.choice([10, 5, 100]))))
    elif name == "vertices":
        vs = view.tl_vars(view.pool[li])
        xs = vs[:2] if len(vs) >= 2 else (vs + [n for n in NAMES if n not in vs])[:2]
        others = [n for n in vs if n not in xs]
        vals = {Var(nm): float(rs.choice([0, 1, 2])) for nm in others}
        if others and rs.random() < 0.1:
            vals.pop(Var(others[0]))
        A["self"] = {"slot": li}
        A["x_var"] = _lit(Var(xs[0]))
        A["y_var"] = _lit(Var(xs[1]))
        A["var_values"] = _lit(vals)
        xl = (float(rs.choice([-10, 0, -1])), float(rs.choice([10, 5, 100])))
        A["x_lims"] = _lit(xl if rs.random() < 0.92 else (xl[1], xl[0]))  # sometimes in the wrong order: an empty region
        A["y_lims"] = _lit((float(rs.choice([-10, 0, -1])), float(rs.choice([10, 5, 100]))))
    elif name == "validate_dict":
        A["d"] = _lit(machine_dict_of(view.pool[ci]))
        A["machine"] = _lit(True)
    else:
        raise HarnessError("generator does not know op %s" % name)
    if force_plain and "simplify" in A:
        A["simplify"] = _lit(False)
    return step
