"""C13 check: operations are pure, results independent of history (DESIGN §6)."""
from __future__ import annotations

import os
import time
from typing import Dict, Optional

from pactisim import env, runner, sessbatch

PROP = "C13"
ORACLES = ["O1", "O2", "O3", "O4", "O5"]
RUNS = {"quick": 1200, "thorough": 40_000}
WALL_CAP = {"quick": 1500.0, "thorough": 5 * 3600.0}
CHUNK = 10


def profile() -> Dict:
    from pactisim import ops  # noqa: WPS433

    return {
        "ops": list(ops.C13_OPS) + list(ops.C13_QUERY_OPS),
        "lengths": [8, 12, 18, 24, 30, 30],
        "weights": {"compose": 2.0, "compose_tactics": 2.0, "quotient": 1.5, "quotient_tactics": 2.0, "elim_refine": 2.5, "elim_relax": 2.0,
                    "tl_rename_variable": 1.5, "tl_simplify": 1.5, "parse": 1.5, "from_strings": 1.2, "merge": 1.2,
                    "contains_behavior": 0.5, "evaluate": 0.5, "is_empty": 0.5, "contains_environment": 0.4, "contains_implementation": 0.4,
                    "vertices": 0.5, "c_vars": 0.5, "tl_vars": 0.4, "c_hash": 0.3, "compound_from_strings": 0.3, "compound_misc": 0.3, "compound_purity": 0.6, "compound_file": 0.3, "write_file_mixed": 0.4, "compound_merge": 0.3, "compound_le": 0.3, "c_eq": 0.3, "tl_eq": 0.3, "c_str": 0.3},
        "p_plots": 0.35,
        "p_logging": 0.35,
        "solver_fault_rates": [0.0, 0.0, 0.0, 0.08],
        "fs_fault_rates": [0.0, 0.3],
    }


def replay(path: str) -> int:
    return sessbatch.replay_file(PROP, path)


def run(tier: str, runs_override: Optional[int] = None) -> int:
    t0 = time.monotonic()
    base = env.base_seed()
    n = runs_override or int(os.environ.get("PACTISIM_C13_RUNS", "0")) or RUNS[tier]
    tot = sessbatch.run_batch(PROP, n, base, profile(), ORACLES, CHUNK, WALL_CAP[tier])
    if tot["harness"]:
        runner.say("HARNESS-ERROR: %d sessions failed inside the harness; first:\n%s" % (len(tot["harness"]), tot["harness"][0]["trace"]))
        return env.EXIT_HARNESS
    lost = tot["discarded_timeout"] + tot["discarded_died"]
    if tot["runs"] and lost > max(2, 0.02 * tot["runs"]):
        runner.say("HARNESS-ERROR: %d of %d sessions lost to timeouts/crashes" % (lost, tot["runs"]))
        return env.EXIT_HARNESS
    code, reported, known_seen = sessbatch.process_violations(PROP, base, tot, ORACLES)
    if code == env.EXIT_HARNESS:
        return code
    wall = time.monotonic() - t0
    st = tot["stats"]
    cnt = tot["counts"]
    outcomes: Dict[str, Dict[str, int]] = {}
    for k, v in st.items():
        if k.startswith("outcome:"):
            _o, op, cls = k.split(":", 2)
            outcomes.setdefault(op, {})[cls] = v
    evidence = {
        "property_id": PROP,
        "tier": tier,
        "seed": base,
        "level": "exploration",
        "wall_s": round(wall, 2),
        "violations": tot["n_violating"],
        "assumptions": [
            "canonical forms (names, list and dict order, every number as type name + float.hex) are built by the harness, never by pacti's own copy/__eq__",
            "pacti + HiGHS + sympy are bitwise deterministic on this platform (measured; see determinism self-test), so bitwise comparison with a pristine interpreter is sound",
            "tactic timings are excluded from comparisons (they belong to the simulated clock); tactic numbers and counts are compared",
            "steps with an injected solver or file-system fault are not compared with the pristine interpreter themselves; every later clean step is",
            "IoContract.simplify() is in place by design and is run on a harness-made clone",
        ],
        "coverage": {
            "evaluations": tot["runs"],
            "distinct_nontrivial": tot["distinct_pool_states"],
            "rule": "one evaluation = one simulated session (<= 30 operations over a shared pool of 6 contracts and 4 constraint lists, results fed back, seeded clock/solver/file faults and environment events); non-trivial = at least one algebraic operation returned AND at least one call raised; distinct = distinct final pool-state digests among the non-trivial sessions",
            "samples": tot["samples"][:2],
            "sessions": tot["runs"],
            "steps": st.get("steps", 0),
            "second_calls": st.get("second_calls", 0),
            "late_repeats_of_an_earlier_call": st.get("late_repeats", 0),
            "results_vandalised": st.get("results_vandalised", 0),
            "pristine_interpreter_replays": st.get("pristine_replays", 0),
            "pristine_timeouts": st.get("pristine_timeouts", 0),
            "steps_with_history_oracles_off_after_a_solver_giveup": st.get("history_oracles_skipped_after_giveup", 0),
            "grammar_probes": st.get("grammar_probes", 0),
            "O5_reparses": st.get("O5_reparses", 0),
            "pool_updates": st.get("pool_updates", 0),
            "outcomes_by_op": {k: outcomes[k] for k in sorted(outcomes)},
            "faults_fired": {k: v for k, v in sorted(cnt.items()) if k.startswith("fault_")},
            "env_events": {k: v for k, v in sorted(cnt.items()) if k.startswith("env:")},
            "lp_calls_by_site_status": {k[3:]: v for k, v in sorted(cnt.items()) if k.startswith("lp:")},
            "natural_solver_giveups_by_site_status": {k[len("natural_solver_giveup:"):]: v for k, v in sorted(cnt.items()) if k.startswith("natural_solver_giveup:")},
            "clock_reads": cnt.get("clock_reads", 0),
            "clock_backward_jumps": cnt.get("clock_backward_jumps", 0),
            "log_records_formatted_under_DEBUG": cnt.get("log_records_formatted", 0),
            "sympy_solve_calls": cnt.get("sympy_solve_calls", 0),
            "sympy_solve_by_unknowns_and_outcome": {k[len("sympy_solve:"):]: v for k, v in sorted(cnt.items()) if k.startswith("sympy_solve:")},
            "simulated_time_s": round(tot["sim_time_s"], 3),
            "distinct_states": {"measure": "distinct final pool-state digests (non-trivial sessions)", "count": tot["distinct_pool_states"]},
            "distinct_op_trigrams": tot["distinct_op_trigrams"],
            "sessions_discarded_timeout": tot["discarded_timeout"],
            "sessions_discarded_died": tot["discarded_died"],
            "runs_per_hour": int(tot["runs"] / max(tot["wall_search_s"], 1e-9) * 3600),
            "steps_per_hour": int(st.get("steps", 0) / max(tot["wall_search_s"], 1e-9) * 3600),
            "workers": tot["workers"],
            "batch_digest": tot["batch_digest"],
            "components": {
                "real": ["everything under /repo/src/pacti", "scipy/HiGHS", "sympy", "pyparsing", "numpy", "matplotlib (when the import event fires)"],
                "simulated": ["clock (polyhedra.time)", "file system (fileio.open/os)", "solver only at faulted calls (the give-up response object itself comes from real HiGHS)"],
            },
            "truncated_by_wall_cap": tot["truncated"],
            "reported": reported,
            "known_findings_seen": [k["key"] for k in known_seen],
            "exhaustive": False,
        },
    }
    runner.write_evidence(PROP, evidence)
    runner.say("C13 %s: %d sessions, %d steps, %d pristine replays, %d violating sessions, %d lost, %.1fs" % (
        tier, tot["runs"], st.get("steps", 0), st.get("pristine_replays", 0), tot["n_violating"], lost, wall))
    return code
