"""Determinism self-test: the same seeds must give the same event logs in a fresh interpreter,
under another PYTHONHASHSEED and another worker count."""
from __future__ import annotations

import json
import os
import shutil
import subprocess
import tempfile
from typing import Dict

from pactisim import env

CHECK = os.path.join(env.VERIF_DIR, "check")
RUNS = {"C05": 6000, "C13": 96, "C14": 96}
CONFIGS = [("0", "16"), ("7", "5"), ("random", "3")]


def _one(prop: str, hashseed: str, workers: str, runs: int, seed: int) -> Dict:
    tmp = tempfile.mkdtemp(prefix="pactisim-det-")
    try:
        e = dict(os.environ)
        e.update({"PACTISIM_HASHSEED": hashseed, "PACTISIM_WORKERS": workers, "PACTISIM_EVIDENCE_DIR": tmp, "PACTISIM_REPLAY_DIR": tmp, "VERIF_SEED": str(seed)})
        args = [CHECK, prop, "--runs", str(runs)]
        if prop == "C14":
            args += ["--only", "sessions"]
        cp = subprocess.run(args, capture_output=True, text=True, env=e, timeout=7200)
        with open(os.path.join(tmp, prop + ".json")) as f:
            ev = json.load(f)
        return {"exit": cp.returncode, "digest": ev["coverage"]["batch_digest"], "evaluations": ev["coverage"]["evaluations"]}
    finally:
        shutil.rmtree(tmp, ignore_errors=True)


def check(prop: str) -> Dict:
    runs = int(os.environ.get("PACTISIM_DET_RUNS", "0")) or RUNS[prop]
    out = {"runs": runs, "configs": [], "mismatches": 0}
    for seed in (0, 12345):
        ref = None
        for hs, w in CONFIGS:
            r = _one(prop, hs, w, runs, seed)
            r.update({"PYTHONHASHSEED": hs, "workers": w, "seed": seed})
            out["configs"].append(r)
            if ref is None:
                ref = r["digest"]
            elif r["digest"] != ref:
                out["mismatches"] += 1
    return out
